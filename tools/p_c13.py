"""C13 — Quantity is a zero-overhead transparent wrapper around its rep.

Lean side: AuModel/Layout.lean + Generated/Classes.lean (regenerated here from the clang AST of
/repo), AuModel/QuantityOps.lean, theorems AuProofs/C13.lean + AuProofs/Gen/C13.lean.

Correspondence and oracle (every run):
  (a) layout  — every library unit + seed-generated compound units x 11 reps, Quantity and
      QuantityPoint: sizeof/alignof/trivially-copyable/trivially-destructible/standard-layout and the
      object bytes after default- and value-initialisation, against the model's `classFacts` and
      against the statement (== sizeof(R) ...);
  (b) operators — the same operator expression applied to Quantity operands and to raw operands,
      for all 11 same-type reps and all 11x11 (rep, scalar) pairs: result type (decltype), value
      bit-for-bit, acceptance by the compiler; exhaustive for 8-bit operand pairs (hash compared with
      the model's sweep), boundary-directed + random otherwise; model answers from the Lean driver,
      statement-level oracle = the built-in operator as compiled by the same compiler, plus an
      independent big-integer evaluation of the built-in integer operators in Python;
  (c) round trip — unit(x).in(unit) memcmp for special values, random bit patterns of every rep
      (and all 2^32 float patterns in the thorough tier); the point round trip is observed too.
"""
import json
import os
import re
import shutil
import struct
import time

import c13_extract
import c13_harness as H
from vlib import (AU_INC, UBSAN_ENV, Driver, cxx, finish, kv, link_cmd, pmap, prove, rng_for, run, workdir)

PROP = "C13"

ASSUME = [
    "x86-64 SysV / LP64 target (sizeof/alignof of the 11 reps; long double = x87 80-bit in 16 bytes); same-width "
    "distinct integer types (long vs long long) are identified in the model, the harness reports them distinctly",
    "the Itanium layout rule for a non-polymorphic class without bases is modelled, not verified; it is compared "
    "with the compilers' sizeof/alignof on every run",
    "floating-point instructions are a parameter of the operator theorems (they hold for any semantics); the driver "
    "instantiates float/double with Lean's IEEE Float32/Float; long double values are compared only between the "
    "Quantity operator and the built-in operator inside the C++ harness; NaN results are compared as NaN-ness only",
    "compound *= and /= of an integral rep by a floating-point scalar, and integer `s / q` for a unit that is not "
    "unitless, are rejected by documented static_asserts and are outside the statement",
    "overload resolution and SFINAE of the operators are not modelled beyond the gates written in "
    "AuModel/QuantityOps.lean; acceptance is observed with g++ 12 and clang++ 14",
]

# Known finding F4 (`%`, unary +, unary - on reps narrower than int) is listed in /verif/known_findings.json and matched
# there by vlib.classify on the replay record's fields kind / op / R / narrowing_explains; this check reports it like any
# other violation.  The QuantityPoint round trip unit_pt(x).in(unit_pt) is OUT OF SCOPE of C13 (the round-trip clause is
# about Quantity; for QuantityPoint only the layout facts are claimed): it is recorded under
# coverage.distribution.observations and never reported.

REPS = ["i8", "u8", "i16", "u16", "i32", "u32", "i64", "u64", "f32", "f64", "f80"]
CT = {"i8": "signed char", "u8": "unsigned char", "i16": "short", "u16": "unsigned short", "i32": "int",
      "u32": "unsigned", "i64": "long", "u64": "unsigned long", "f32": "float", "f64": "double", "f80": "long double"}
BITS = {"i8": 8, "u8": 8, "i16": 16, "u16": 16, "i32": 32, "u32": 32, "i64": 64, "u64": 64}
FBYTES = {"f32": 4, "f64": 8, "f80": 10}
SAME_OPS = ["eq", "ne", "lt", "le", "gt", "ge", "add", "sub", "mod", "pos", "neg", "addas", "subas"]
SCALAR_OPS = ["mulr", "divr", "mull", "divl", "mulas", "divas"]
FUNCTOR = {"eq": ("FEq", 0), "ne": ("FNe", 0), "lt": ("FLt", 0), "le": ("FLe", 0), "gt": ("FGt", 0), "ge": ("FGe", 0),
           "add": ("FAdd", 0), "sub": ("FSub", 0), "mod": ("FMod", 0), "pos": ("FPos", 0), "neg": ("FNeg", 0),
           "addas": ("FAddAs", 0), "subas": ("FSubAs", 0), "mulr": ("FMul", 1), "divr": ("FDiv", 1),
           "mull": ("FMul", 2), "divl": ("FDiv", 2), "mulas": ("FMulAs", 1), "divas": ("FDivAs", 1)}
CPP_EXPR = {"eq": "qa == qb", "ne": "qa != qb", "lt": "qa < qb", "le": "qa <= qb", "gt": "qa > qb", "ge": "qa >= qb",
            "add": "qa + qb", "sub": "qa - qb", "mod": "qa % qb", "pos": "+qa", "neg": "-qa", "addas": "qa += qb",
            "subas": "qa -= qb", "mulr": "qa * s", "divr": "qa / s", "mull": "s * qa", "divl": "s / qa",
            "mulas": "qa *= s", "divas": "qa /= s"}


def is_int(r):
    return r in BITS


def lo(r):
    return -(1 << (BITS[r] - 1)) if r[0] == "i" else 0


def hi(r):
    return (1 << (BITS[r] - 1)) - 1 if r[0] == "i" else (1 << BITS[r]) - 1


def family(compiler):
    return "gcc" if compiler == "g++" else "clang"      # "exact" = clang++-14 with the exact-count UBSan handlers


def real_compiler(compiler):
    return "clang++-14" if compiler == "exact" else compiler


def cfg_name(compiler, std):
    return f"{compiler} -std={std}"


# ------------------------------------------------------------------------------------------------
# independent big-integer evaluation of the built-in integer operators (LP64)
# ------------------------------------------------------------------------------------------------

def py_promote(t):
    return "i32" if BITS[t] < 32 else t


def py_uac(a, b):
    a, b = py_promote(a), py_promote(b)
    if a == b:
        return a
    if a[0] == b[0]:
        return a if BITS[a] >= BITS[b] else b
    s, u = (a, b) if a[0] == "i" else (b, a)
    return u if BITS[s] <= BITS[u] else s


def py_conv(t, x):
    m = 1 << BITS[t]
    x %= m
    if t[0] == "i" and x >= m >> 1:
        x -= m
    return x


def py_tdiv(a, b):
    q = abs(a) // abs(b)
    return q if (a < 0) == (b < 0) else -q


def py_raw(op, R, T, a, b):
    """(type code, value | 'ub') of the built-in operator on integer operands, by the rules of the standard."""
    f, mode = FUNCTOR[op]
    if op in ("pos", "neg"):
        c = py_promote(R)
        x = py_conv(c, a)
        r = x if op == "pos" else -x
        if c[0] == "i":
            return c, (r if lo(c) <= r <= hi(c) else "ub")
        return c, py_conv(c, r)
    ta, tb, x, y = (T, R, b, a) if mode == 2 else (R, (R if mode == 0 else T), a, b)
    c = py_uac(ta, tb)
    x, y = py_conv(c, x), py_conv(c, y)
    if f in ("FEq", "FNe", "FLt", "FLe", "FGt", "FGe"):
        return "bool", int({"FEq": x == y, "FNe": x != y, "FLt": x < y, "FLe": x <= y, "FGt": x > y, "FGe": x >= y}[f])
    k = f.replace("As", "")
    if k in ("FDiv", "FMod"):
        if y == 0 or (c[0] == "i" and x == lo(c) and y == -1):
            r = "ub"
        else:
            q = py_tdiv(x, y)
            r = q if k == "FDiv" else x - q * y
    else:
        r = {"FAdd": x + y, "FSub": x - y, "FMul": x * y}[k]
        if c[0] == "i":
            r = r if lo(c) <= r <= hi(c) else "ub"
        else:
            r = py_conv(c, r)
    if f.endswith("As"):
        return "ref:" + ta, (py_conv(ta, r) if r != "ub" else "ub")
    return c, r


# ------------------------------------------------------------------------------------------------
# values
# ------------------------------------------------------------------------------------------------

F32_SPECIAL = [0x00000000, 0x80000000, 0x7f800000, 0xff800000, 0x7fc00000, 0xffc00000, 0x7f812345, 0xffbfffff,
               0x7fc12345, 0x7fffffff, 0x00000001, 0x80000001, 0x007fffff, 0x00800000, 0x7f7fffff, 0xff7fffff,
               0x3f800000, 0xbf800000, 0x3f800001, 0x4b800000, 0x4b7fffff, 0x4f000000, 0x5f000000, 0x33800000]
F64_SPECIAL = [0x0, 0x8000000000000000, 0x7ff0000000000000, 0xfff0000000000000, 0x7ff8000000000000,
               0xfff8000000000000, 0x7ff0000000000001, 0xfff7ffffffffffff, 0x7ff8000000012345, 0x7fffffffffffffff,
               0x1, 0x8000000000000001, 0x000fffffffffffff, 0x0010000000000000, 0x7fefffffffffffff,
               0xffefffffffffffff, 0x3ff0000000000000, 0xbff0000000000000, 0x3ff0000000000001, 0x4340000000000000,
               0x433fffffffffffff, 0x43e0000000000000, 0x41e0000000000000, 0x3ca0000000000000]
F80_SPECIAL = [0x0, 0x80000000000000000000, 0x7fff8000000000000000, 0xffff8000000000000000, 0x7fffc000000000000000,
               0xffffc000000000000000, 0x7fff8000000000000001, 0xffffbfffffffffffffff, 0x7fffc000000000012345,
               0x7fffffffffffffffffff, 0x1, 0x80000000000000000001, 0x00007fffffffffffffff, 0x00018000000000000000,
               0x7ffeffffffffffffffff, 0xfffeffffffffffffffff, 0x3fff8000000000000000, 0xbfff8000000000000000,
               0x3fff8000000000000001, 0x403e8000000000000000, 0x403effffffffffffffff, 0x3fc08000000000000000]
SPECIAL = {"f32": F32_SPECIAL, "f64": F64_SPECIAL, "f80": F80_SPECIAL}


def rand_float_bits(rng, r):
    if r == "f32":
        return rng.getrandbits(32)
    if r == "f64":
        return rng.getrandbits(64)
    ex = rng.choice([0, 0x7fff, rng.getrandbits(15), 0x3fff + rng.randrange(-70, 70)])
    man = rng.getrandbits(63) | ((1 << 63) if ex else 0)
    return (rng.getrandbits(1) << 79) | (ex << 64) | man


def moderate_float_bits(rng, r):
    """A finite value of moderate magnitude (so that products/sums are finite and interesting)."""
    v = rng.choice([rng.uniform(-1000, 1000), float(rng.randrange(-100, 100)), rng.uniform(-1, 1) * 2.0 ** rng.randrange(-30, 30)])
    if r == "f32":
        return struct.unpack("<I", struct.pack("<f", v))[0]
    if r == "f64":
        return struct.unpack("<Q", struct.pack("<d", v))[0]
    d = struct.unpack("<Q", struct.pack("<d", v))[0]
    s, e, m = d >> 63, (d >> 52) & 0x7ff, d & ((1 << 52) - 1)
    if e == 0:
        return s << 79
    return (s << 79) | ((e - 1023 + 16383) << 64) | (1 << 63) | (m << 11)


def fmt_val(r, x):
    return str(x) if is_int(r) else hex(x)


def int_pool(rng, r, n):
    l, h = lo(r), hi(r)
    b = BITS[r]
    pool = {l, l + 1, l + 2, -1, 0, 1, 2, 3, h - 2, h - 1, h, h // 2, h // 2 + 1, l // 2, 1 << (b // 2), (1 << (b // 2)) - 1,
            -(1 << (b // 2)), 127, 128, 255, 256, -128, -129, 32767, 32768, 65535, 65536, -32768, -32769,
            2147483647, 2147483648, -2147483648, -2147483649, 4294967295, 4294967296}
    for _ in range(n):
        k = rng.randrange(1, b + 1)
        v = rng.getrandbits(k)
        pool.add(v if rng.random() < 0.5 else -v)
    return sorted(v for v in pool if l <= v <= h)


def float_pool(rng, r, n):
    pool = list(SPECIAL[r])
    for _ in range(n):
        pool.append(rand_float_bits(rng, r) if rng.random() < 0.4 else moderate_float_bits(rng, r))
    return pool


def bounds(r):
    """Every boundary of an integral rep that a guard, a promotion or a conversion can key on."""
    l, h = lo(r), hi(r)
    s = {l, l + 1, -2, -1, 0, 1, 2, 3, h - 1, h, h // 2, h // 2 + 1, l // 2}
    for w in (8, 16, 32, 64):
        s |= {2 ** (w - 1) - 1, 2 ** (w - 1), 2 ** w - 1, 2 ** w, -2 ** (w - 1), -2 ** (w - 1) - 1}
    return sorted(v for v in s if l <= v <= h)


def bounds_small(r):
    l, h = lo(r), hi(r)
    s = {l, l + 1, -1, 0, 1, 2, h, h // 2 + 1, 2 ** 31 - 1, 2 ** 31, -2 ** 31}
    return sorted(v for v in s if l <= v <= h)


def bounds6(r):
    l, h = lo(r), hi(r)
    return sorted({l, -1 if l < 0 else 2, 0, 1, h, h // 2 + 1})


# indices into SPECIAL[r] (same layout for the three formats): 0 +0, 1 -0, 2 +inf, 3 -inf, 4 qNaN, 5 -qNaN, 6 sNaN(payload),
# 7 -sNaN, 8 qNaN(payload), 9 all-ones NaN, 10 denorm_min, 11 -denorm_min, 12 largest denormal, 13 smallest normal, 14 max,
# 15 lowest (= -max), 16 1.0, 17 -1.0, 18 1+ulp.  Every class of the statement's quantifier (+-0, +-inf, quiet / signalling NaN
# with payloads, subnormals, min / max / lowest, -1) is in the permanent grids below; nothing here is seed-sampled.
FKEY = [0, 1, 2, 3, 4, 5, 6, 8, 10, 13, 14, 15, 16, 17, 18]
FKEY_MIXED = [0, 1, 2, 3, 4, 6, 10, 14, 15, 16, 17]
FKEY_SIX = [0, 1, 2, 4, 6, 10, 14, 16]


def bounds_mixed(r):
    """Key values of an integral rep used against an operand of ANOTHER type: the limits (which fall outside a narrower
    partner's range, change sign in an unsigned partner, or are the minimum of the promoted type), -1, 0, 1, 2, -2, a value
    whose double leaves the rep (hi//2+1) and the neighbours of the limits."""
    l, h = lo(r), hi(r)
    s = {l, l + 1, -2, -1, 0, 1, 2, h - 1, h, h // 2 + 1}
    return sorted(v for v in s if l <= v <= h)


def keys(r, size):
    if is_int(r):
        return {"full": bounds, "small": bounds_small, "six": bounds6, "mixed": bounds_mixed}[size](r)
    if size == "all":
        return list(SPECIAL[r])
    return [SPECIAL[r][i] for i in (FKEY if size in ("full", "small") else (FKEY_MIXED if size == "mixed" else FKEY_SIX))]


def directed_points(op, R, T, level):
    """Directed operand pairs, identical in every run: every boundary of the reps (min, max, 2^7 .. 2^63 and their
    neighbours, 0, +-1, the zero divisor, lo / -1, results at the edge of the common type) and, for floating reps, signed
    zeros, infinities, quiet and signalling NaNs with payloads, the smallest denormal, max, +-1.  `level` "main": full grid;
    "extra" (the additional language standards of the quick tier): a smaller grid of the same special values."""
    f, mode = FUNCTOR[op]
    tb = R if mode == 0 else T
    if is_int(R) and BITS[R] == 8 and is_int(tb) and BITS[tb] == 8:
        return [(lo(R), lo(R) if op in ("pos", "neg") else lo(tb)), (hi(R), hi(R) if op in ("pos", "neg") else hi(tb))]   # swept exhaustively anyway
    if op in ("pos", "neg"):
        return [(a, a) for a in keys(R, "full" if is_int(R) else "all")]      # floats: every special value of the table
    if R == tb:
        big = keys(R, "full" if level == "main" else "small")
        small = keys(R, "small" if level == "main" else "six")
        cmp_op = f in ("FEq", "FNe", "FLt", "FLe", "FGt", "FGe")
        if cmp_op or level != "main":
            pts = [(a, b) for a in small for b in small] + [(a, a) for a in big]
            if is_int(R):
                pts += [(a, a + 1) for a in big if a + 1 <= hi(R)] + [(a + 1, a) for a in big if a + 1 <= hi(R)]
        else:
            pts = [(a, b) for a in big for b in small]
            if is_int(R):
                pts += [(a, b) for a in small for b in big]
        return list(dict.fromkeys(pts))
    # operands of different types
    if level != "main":
        return [(a, b) for a in keys(R, "six") for b in keys(tb, "six")]
    ka = keys(R, "six") if (is_int(R) and not is_int(tb)) else keys(R, "mixed")
    kb = keys(tb, "six" if is_int(tb) else "mixed")
    pts = [(a, b) for a in ka for b in kb]
    if is_int(R) and is_int(tb):
        extra_b = [v for v in (2, -2, hi(tb) - 1, lo(tb) + 1) if lo(tb) <= v <= hi(tb)]
        pts += [(a, b) for a in keys(R, "six") for b in extra_b]
    return list(dict.fromkeys(pts))


def random_points(rng, op, R, T, n):
    """Seed-dependent operand pairs: results at the edge of the common type for random operands, random values."""
    f, mode = FUNCTOR[op]
    tb = R if mode == 0 else T
    pts = []
    if is_int(R) and is_int(tb):
        if BITS[R] == 8 and BITS[tb] == 8:
            return []
        ta_, tb_ = (tb, R) if mode == 2 else (R, tb)
        c = py_promote(R) if op in ("pos", "neg") else py_uac(ta_, tb_)
        pa, pb = int_pool(rng, R, 6), int_pool(rng, tb, 6)
        k = f.replace("As", "")
        for _ in range(n):
            a = rng.choice(pa) if rng.random() < 0.5 else rng.randrange(lo(R), hi(R) + 1)
            for edge in (hi(c), lo(c)):
                d = rng.choice((-1, 0, 1))
                if k == "FAdd":
                    b = edge + d - a
                elif k == "FSub":
                    b = a - edge - d
                elif k == "FMul" and a not in (0,):
                    b = edge // a + d
                else:
                    b = rng.choice(pb)
                if lo(tb) <= b <= hi(tb):
                    pts.append((a, b))
            pts.append((rng.randrange(lo(R), hi(R) + 1), rng.randrange(lo(tb), hi(tb) + 1)))
            pts.append((rng.choice(pa), rng.choice(pb)))
    else:
        pa = int_pool(rng, R, 4) if is_int(R) else float_pool(rng, R, 8)
        pb = int_pool(rng, tb, 4) if is_int(tb) else float_pool(rng, tb, 8)
        for _ in range(2 * n + 2):
            pts.append((rng.choice(pa), rng.choice(pb)))
    if op in ("pos", "neg"):
        pts = [(p[0], p[0]) for p in pts]
    return list(dict.fromkeys(pts))


def is_nan_bits(code, s):
    """Is the printed floating-point value (hex bit pattern) a NaN of the type with this code?"""
    if not s.startswith("0x"):
        return False
    x = int(s, 16)
    c = code.replace("ref:", "")
    if c == "f32":
        return (x >> 23) & 0xff == 0xff and x & ((1 << 23) - 1) != 0
    if c == "f64":
        return (x >> 52) & 0x7ff == 0x7ff and x & ((1 << 52) - 1) != 0
    if c == "f80":
        return (x >> 64) & 0x7fff == 0x7fff and x & ((1 << 63) - 1) != 0
    return False


# ------------------------------------------------------------------------------------------------
# units
# ------------------------------------------------------------------------------------------------

def library_units():
    d = os.path.join(AU_INC, "au", "units")
    out = []
    for f in sorted(os.listdir(d)):
        if f.endswith("_fwd.hh"):
            for m in re.finditer(r"^struct\s+(\w+)\s*;", open(os.path.join(d, f)).read(), re.M):
                out.append((m.group(1), f.replace("_fwd.hh", ".hh")))
    return out


GEN_KINDS = ["prod", "quot", "pow", "scaled", "prefix", "inverse", "root", "prodpow", "equiv", "scaled_one", "common"]


def generated_units(rng, units, n):
    """Compound unit type expressions over library units: (name, C++ type, headers).  Always present: the unitless unit and
    one unit of every kind (incl. a quantity-equivalent but differently typed unit, a unit scaled by exactly one, a common
    unit); the rest is random."""
    out = [("unitless", "au::UnitProductT<>", [units[0][1]])]
    for i in range(n):
        (a, ha), (b, hb) = rng.choice(units), rng.choice(units)
        kind = GEN_KINDS[i] if i < len(GEN_KINDS) else rng.choice(GEN_KINDS)
        m = rng.choice([2, 3, 10, 1000, 12, 60])
        if kind == "prod":
            t = f"decltype(au::{a}{{}} * au::{b}{{}})"
        elif kind == "quot":
            t = f"decltype(au::{a}{{}} / au::{b}{{}})"
        elif kind == "pow":
            t = f"au::UnitPowerT<au::{a}, {rng.choice([2, 3, -1, -2])}>"
        elif kind == "scaled":
            t = f"decltype(au::{a}{{}} * au::mag<{m}>() / au::mag<{rng.choice([1, 7, 9])}>())"
        elif kind == "prefix":
            t = f"au::{rng.choice(['Kilo', 'Milli', 'Micro', 'Mega', 'Kibi'])}<au::{a}>"
        elif kind == "inverse":
            t = f"au::UnitInverseT<au::{a}>"
        elif kind == "root":
            t = f"decltype(au::root<2>(au::{a}{{}}))"
        elif kind == "equiv":
            t = f"au::Kilo<au::Milli<au::{a}>>"
        elif kind == "scaled_one":
            t = f"decltype(au::{a}{{}} * au::mag<1>())"
        elif kind == "common":
            t = f"au::CommonUnitT<au::{a}, au::Kilo<au::{a}>, decltype(au::{a}{{}} * au::mag<{m}>() / au::mag<7>())>"
        else:
            t = f"decltype(au::pow<2>(au::{a}{{}}) / au::{b}{{}} * au::mag<{m}>())"
        out.append((f"gen{i}:{kind}", t, [ha, hb]))
    return out


# ------------------------------------------------------------------------------------------------
# building and running
# ------------------------------------------------------------------------------------------------

# Unsigned wrap-around is part of the semantics of the built-in operators (the property does not forbid it: the
# Quantity operator must wrap exactly like the built-in one), and the harness's own hash / RNG wrap on purpose, so the
# unsigned-integer-overflow check is switched off in the clang and "exact" builds.  Everything in -fsanitize=undefined
# stays on.  In the "exact" build (clang++-14, minimal runtime + /verif/harness/ubsan_exact.cc) EVERY execution of an
# undefined operation calls __ubsan_on_report, so the per-input / per-sweep `ub` counts are exact there; the full
# runtimes of g++ / clang++ report a source location once per process (and g++ never calls the hook), so their `ub`
# columns are informational and ASan is what those builds add.
NOUIO = ["-fno-sanitize=unsigned-integer-overflow"]


def no_uio(compiler):
    return [] if compiler == "g++" else NOUIO


def compile_objs(wd, files, compiler, std, tag):
    def comp(src):
        obj = src[:-3] + f".{tag}.o"
        rc, out = cxx(src, obj, compiler=compiler, std=std, extra=["-c"] + no_uio(compiler))
        return src, obj, rc, out
    objs = []
    for src, obj, rc, out in pmap(comp, files):
        if rc != 0:
            return None, {"src": os.path.basename(src), "output": out[-5000:]}
        objs.append(obj)
    return objs, None


def compile_many(wd, jobs):
    """jobs: [(compiler, std, tag, files)] -> {tag: (objs | None, err | None)}; all translation units of all configurations
    go through one pool."""
    flat = [(compiler, std, tag, src) for (compiler, std, tag, files) in jobs for src in files]

    def comp(j):
        compiler, std, tag, src = j
        obj = src[:-3] + f".{tag}.o"
        # the additional g++ standards of the quick tier are built without ASan/UBSan (g++ c++14 has them; UB verdicts come
        # from the "exact" builds only): it halves their compile time
        rc, out = cxx(src, obj, compiler=compiler, std=std, san=("_extra_" not in os.path.basename(src) or compiler != "g++"),
                      extra=["-c"] + no_uio(compiler))
        return tag, src, obj, rc, out
    res = {tag: ([], None) for (_, _, tag, _) in jobs}
    for tag, src, obj, rc, out in pmap(comp, flat):
        objs, err = res[tag]
        if rc != 0 and err is None:
            err = {"src": os.path.basename(src), "output": out[-5000:]}
        res[tag] = (objs + [obj], err)
    return {tag: ((objs if err is None else None), err) for tag, (objs, err) in res.items()}


def link(objs, exe, compiler):
    rc, out, err = run(link_cmd(compiler, objs, exe, extra=no_uio(compiler)))
    if rc != 0:
        return {"src": "link", "output": (out + err)[-4000:]}
    return None


def run_lines(exe, lines, shards=16, heavy=None):
    """Feed request lines to `shards` processes (round robin, heavy lines spread first)."""
    if not lines:
        return [], []
    order = sorted(range(len(lines)), key=lambda i: 0 if (heavy and heavy(lines[i])) else 1)
    buckets = [[] for _ in range(min(shards, len(lines)))]
    for k, i in enumerate(order):
        buckets[k % len(buckets)].append(i)

    def work(idx):
        rc, out, err = run([exe], inp="\n".join(lines[i] for i in idx) + "\n", env=UBSAN_ENV, timeout=7200)
        res = [l for l in out.split("\n") if l]
        if len(res) != len(idx):
            raise RuntimeError(f"harness {os.path.basename(exe)}: rc={rc}, {len(res)} answers for {len(idx)} requests; "
                               f"stderr tail:\n{err[-3000:]}")
        return res, err
    answers, errs = [None] * len(lines), []
    for idx, (res, err) in zip(buckets, pmap(work, buckets, workers=len(buckets))):
        errs.append(err)
        for i, r in zip(idx, res):
            answers[i] = r
    return answers, errs


def unit_header_includes(headers):
    return "\n".join(f'#include "au/units/{h}"' for h in sorted(set(headers))) + '\n#include "au/prefix.hh"\n'


# ------------------------------------------------------------------------------------------------
# (a) layout
# ------------------------------------------------------------------------------------------------

def explore_layout(wd, drv, configs, rng, tier, stats, viol, samples):
    units = library_units()
    gen = generated_units(rng, units, 16 if tier == "quick" else 64)
    allu = gen[:1] + [(n, f"au::{n}", [h]) for n, h in units] + gen[1:]
    utype = {n: (t, hs) for n, t, hs in allu}
    nch = 8 if tier == "quick" else 16
    chunks = [allu[i::nch] for i in range(nch)]
    files = []
    for ci, ch in enumerate(chunks):
        src = H.LAYOUT.replace("@UNIT_INCLUDES@", unit_header_includes([h for _, _, hs in ch for h in hs]))
        rows = "\n".join(f'    {{ using UT = {t}; ROWS(UT, "{n}") }}' for n, t, _ in ch)
        p = os.path.join(wd, f"layout{ci}.cc")
        open(p, "w").write(src.replace("@ROWS@", rows))
        files.append(p)
    model = {}
    ans = drv.ask([f"c13 layout {c} {r}" for c in ("Quantity", "QuantityPoint") for r in REPS] + [f"c13 repsize {r}" for r in REPS])
    k = 0
    for c in ("Quantity", "QuantityPoint"):
        for r in REPS:
            model[(c, r)] = kv(ans[k])
            k += 1
    repsize = {}
    for r in REPS:
        repsize[r] = kv(ans[k])
        k += 1
    stats["layout_units"] = len(allu)
    stats["layout_library_units"] = len(units)
    stats["layout_rows"] = 0
    stats["layout_model"] = {f"{c}<{r}>": ans[i] for i, (c, r) in enumerate((c, r) for c in ("Quantity", "QuantityPoint") for r in REPS)
                             if r in ("i8", "f80")}
    def build(j):
        compiler, std, tag, src = j
        exe = src[:-3] + f".{tag}"
        rc, out = cxx(src, exe, compiler=compiler, std=std, extra=no_uio(compiler))
        return tag, src, exe, rc, out
    jobs = [(compiler, std, tag, src) for (compiler, std, tag, role) in configs for src in (files if role == "main" else files[:1])]
    builds = pmap(build, jobs)
    stats["layout_units_extra_configs"] = len(chunks[0])
    for (compiler, std, tag, role) in configs:
        cfg = f"{compiler} -std={std}"
        for tg, src, exe, rc, out in builds:
            if tg != tag:
                continue
            if rc != 0:
                viol.append({"what": f"layout harness does not compile under {cfg}", "class": "layout-build", "no_input": True,
                             "broken": "correspondence: layout harness (Quantity / QuantityPoint over all units x reps)",
                             "rec": {"kind": "build", "config": cfg, "src": os.path.basename(src)}, "detail": out[-4000:]})
                continue
            rc, o, e = run([exe], env=UBSAN_ENV, timeout=600)
            rows = [l for l in o.split("\n") if l.startswith("L ")]
            ubl = [l for l in o.split("\n") if l.startswith("U ")]
            if ubl and kv(ubl[0]).get("ub") != "0" and compiler == "exact":
                viol.append({"what": f"sanitizer report while constructing Quantity / QuantityPoint objects under {cfg}", "class": "layout-ub",
                             "no_input": True, "broken": "layout harness (default / value construction)",
                             "rec": {"kind": "ub", "config": cfg, "impl": ubl[0]}, "detail": e[-2000:]})
            if rc != 0 or not rows:
                viol.append({"what": f"layout harness failed at run time under {cfg}", "class": "layout-run", "no_input": True,
                             "broken": "layout harness", "rec": {"kind": "run", "config": cfg}, "detail": (o + e)[-3000:]})
                continue
            for l in rows:
                f = l.split()
                un, r = f[1], f[2]
                d = kv(l)
                stats["layout_rows"] += 1
                if len(samples) < 2:
                    samples.append({"layout_row": l, "config": cfg, "model": model[("Quantity", r)]})
                sr, ar = int(d["sr"]), int(d["ar"])
                if str(sr) != repsize[r]["size"] or str(ar) != repsize[r]["align"]:
                    viol.append({"what": f"sizeof/alignof of rep {r} differ from the model's target description",
                                 "class": f"repsize-{r}", "no_input": True, "broken": "RepTy.size / RepTy.align",
                                 "rec": {"kind": "repsize", "R": r, "config": cfg, "impl": l}})
                for cls, s, a, fl in (("Quantity", d["sq"], d["aq"], int(d["fq"])), ("QuantityPoint", d["sp"], d["ap"], int(d["fp"]))):
                    m = model[(cls, r)]
                    impl = {"size": s, "align": a, "tc": str((fl >> 2) & 1), "td": str((fl >> 3) & 1), "sl": str((fl >> 4) & 1),
                            "dflt": "zero" if (fl & 480 == 480) else "nonzero"}
                    base = {"kind": "layout", "cls": cls, "unit": un, "unit_type": utype[un][0], "unit_headers": utype[un][1],
                            "R": r, "config": cfg, "impl": impl, "model": m}
                    # statement-level oracle: exactly R's size and alignment, the three type properties, R{} after construction
                    ok = (int(s) == sr and int(a) == ar and fl & 511 == 511)
                    if not ok:
                        viol.append({"what": f"{cls}<{un}, {r}> is not a transparent wrapper: sizeof={s} alignof={a} (rep: {sr}/{ar}) "
                                             f"trivially_copyable={impl['tc']} trivially_destructible={impl['td']} "
                                             f"standard_layout={impl['sl']} default-init==R{{}}:{(fl >> 5) & 1} X{{}}==R{{}}:{(fl >> 6) & 1} "
                                             f"X()==R{{}}:{(fl >> 7) & 1} constexpr X{{}}==R{{}}:{(fl >> 8) & 1}",
                                     "class": f"layout-{cls}", "rec": base})
                    if any(impl[k2] != m.get(k2) for k2 in ("size", "align", "tc", "td", "sl")) or \
                            (impl["dflt"] == "zero") != (m.get("dflt") == "zero"):
                        viol.append({"what": f"model classFacts and compiler differ for {cls}<{un}, {r}>", "class": f"corr-layout-{cls}",
                                     "no_input": True, "broken": "correspondence: AuModel.Layout.classFacts over Generated.Classes",
                                     "rec": base})
    return len(allu)


# ------------------------------------------------------------------------------------------------
# (b) operators
# ------------------------------------------------------------------------------------------------

def all_combos():
    out = []
    for r in REPS:
        for op in SAME_OPS:
            out.append({"op": op, "R": r, "T": r, "ul": 0})
            out.append({"op": op, "R": r, "T": r, "ul": 1})        # the unitless unit (implicitly convertible to Rep)
        for t in REPS:
            for op in SCALAR_OPS:
                out.append({"op": op, "R": r, "T": t, "ul": 0})
                if t == r and op != "divl":
                    out.append({"op": op, "R": r, "T": t, "ul": 1})
            out.append({"op": "divl", "R": r, "T": t, "ul": 1})      # every (rep, scalar) pair, not a hand-picked list
    return out


def dummy(r):
    return "1" if is_int(r) else "0x0"


def key(c):
    return (c["op"], c["R"], c["T"], c["ul"])


def model_types(drv, combos):
    ans = drv.ask([f"c13 op {c['op']} {c['R']} {c['T']} {dummy(c['R'])} {dummy(c['T'])} {c['ul']}" for c in combos])
    return {key(c): kv(a) for c, a in zip(combos, ans)}


def types_only_by_design(c, role):
    """In the "extra" configurations the combinations with a scalar of a different type, and the unitless-unit twins, are
    compiled for their result type only (decltype: for the `auto`-returning scalar operators that instantiates the operator
    body, so acceptance is still observed); they are evaluated in the "main" configurations."""
    return role == "extra" and (c["T"] != c["R"] or bool(c["ul"]))


def write_ops_harness(wd, combos, mt, fam, unit, header, role="main"):
    common = H.OPS_COMMON.replace("@UNIT_INCLUDES@", unit_header_includes([header])).replace("@UNIT@", "au::" + unit)
    files, names, sizes = [], [], []
    for r in REPS:
        rows = []
        for c in combos:
            if c["R"] != r:
                continue
            m = mt[key(c)]
            f, mode = FUNCTOR[c["op"]]
            t = c["T"]
            bt = CT[r] if mode == 0 else CT[t]
            uq = "U0" if c["ul"] else "U"
            args = f'"{c["op"]}", {f}, {CT[r]}, {CT[t]}, {mode}, {uq}, {c["ul"]}, "{r}", "{t}", {bt}'
            if m[fam] == "1" and types_only_by_design(c, role):
                rows.append(f"    E_TYPES({args}),")
            elif m[fam] == "1":
                small = is_int(r) and BITS[r] == 8 and (mode == 0 or (is_int(t) and BITS[t] == 8))
                rows.append(f"    {'E_SWEEP' if small else 'E_FULL'}({args}),")
            elif m["ty"] != "-" and c["op"] in ("mod", "pos", "neg") and m["rawok"] == "1":
                rows.append(f"    E_TYPES({args}),")
            else:
                rows.append(f'    E_NONE("{c["op"]}", "{r}", "{t}", {c["ul"]}),')
        p = os.path.join(wd, f"ops_{fam}_{role}_{r}.cc")
        open(p, "w").write(common + f"extern const Entry table_{r}[] = {{\n" + "\n".join(rows) + "\n};\n"
                           + f"extern const int table_{r}_n = {len(rows)};\n")
        files.append(p)
        names.append(f"table_{r}")
        sizes.append(str(len(rows)))
    main = common + H.OPS_MAIN.replace("@CPU_LIMIT@", str(CPU_LIMIT))
    main = main.replace("@EXTERNS@", "\n".join(f"extern const Entry {n}[];" for n in names))
    main = main.replace("@TABLES@", ", ".join(names)).replace("@SIZES@", ", ".join(sizes))
    p = os.path.join(wd, f"ops_{fam}_{role}_main.cc")
    open(p, "w").write(main)
    files.append(p)
    return files


CPU_LIMIT = 1500      # seconds of CPU time (not wall time) per harness process before the watchdog ends the current request

NEG_DIAG = {
    "narrowing": ["cannot be narrowed", "narrowing conversion"],
    "modfloat": ["invalid operands"],
    "shorthand": ["compound mult/div of integral types by floating point"],
    "intdiv": ["Integer division forbidden"],
}


def permanent_gate_pair(r, t):
    """(R, T) pairs probed in every run for the two documented gates: R integral with T floating (shorthand gate): each
    integral R with one floating T, cycling so that each floating T occurs; R, T integral (integer-division gate): the
    diagonal plus the extreme width / signedness mixes."""
    ints = [x for x in REPS if is_int(x)]
    flts = [x for x in REPS if not is_int(x)]
    if is_int(r) and not is_int(t):
        return flts[ints.index(r) % len(flts)] == t
    if is_int(r) and is_int(t):
        return r == t or (r, t) in (("i8", "u64"), ("u64", "i8"), ("i32", "u32"), ("u32", "i32"), ("i16", "i64"), ("u8", "i8"))
    return False


def reject_reason(c):
    op, r, t = c["op"], c["R"], c["T"]
    if op in ("mod", "pos", "neg") and is_int(r):
        return "narrowing"
    if op == "mod":
        return "modfloat"
    if op in ("mulas", "divas"):
        return "shorthand"
    if op == "divl":
        return "intdiv"
    return "?"


def cxx_default_diag(src, compiler, std):
    """-fsyntax-only with the compiler's *default* diagnostics (vlib.cxx passes -w, which also switches off clang's
    default-error -Wc++11-narrowing; acceptance by the compiler is an observable of this property, so no -w here)."""
    rc, o, e = run([real_compiler(compiler), f"-std={std}", "-I", AU_INC, "-fsyntax-only", src], timeout=600)
    return rc, o + e


def probe_src(c, unit, header):
    uq = "au::UnitProductT<>" if c["ul"] else "au::" + unit
    return (f'#include "au/quantity.hh"\n#include "au/units/{header}"\n'
            f"void probe({CT[c['R']]} a, {CT[c['R']]} b, {CT[c['T']]} s) {{\n"
            f"    auto qa = au::make_quantity<{uq}>(a); auto qb = au::make_quantity<{uq}>(b); (void)qa; (void)qb; (void)s;\n"
            f"    (void)({CPP_EXPR[c['op']]});\n}}\n")


def explore_ops(wd, drv, configs, rng, tier, seed, stats, viol, samples, distinct):
    units = library_units()
    unit, header = rng.choice(units)
    stats["ops_unit"] = unit
    combos = all_combos()
    mt = model_types(drv, combos)
    nrand = 1 if tier == "quick" else 8
    # main configurations: full grid (the smaller grid for the unitless-unit twins of the same operators); extra
    # configurations (the other language standards): the smaller grid, for the same-type operators and the T == R scalar ones
    dmain = {key(c): directed_points(c["op"], c["R"], c["T"],
                                     "main" if not c["ul"] or (c["op"] == "divl" and is_int(c["R"]) and is_int(c["T"])) else "extra")
             for c in combos}
    dextra = {key(c): (directed_points(c["op"], c["R"], c["T"], "extra") if (c["T"] == c["R"] and not c["ul"]) else []) for c in combos}
    rnd = {key(c): random_points(rng, c["op"], c["R"], c["T"], nrand) for c in combos}
    pts = {k: list(dict.fromkeys(dmain[k] + dextra[k] + rnd[k])) for k in dmain}     # everything the model is asked about
    pts_for = {"main": {k: list(dict.fromkeys(dmain[k] + rnd[k])) for k in dmain}, "extra": dextra}
    stats["op_directed_points_per_config"] = {"main": sum(len(v) for v in dmain.values()), "extra": sum(len(v) for v in dextra.values())}
    stats["op_random_points_per_main_config"] = sum(len(v) for v in rnd.values())
    stats.update({"op_combos": len(combos), "op_points": 0, "op_sweeps": 0, "op_sweep_values": 0, "op_types_checked": 0,
                  "op_gated": 0, "op_raw_illformed": 0, "op_undefined_skipped": 0, "op_value_unmodelled_f80": 0,
                  "op_python_int_oracle": 0, "neg_probes": 0, "f4_cases": 0, "ops_by_kind": {}, "op_constexpr_checks": 0,
                  "ub_reports_nonexact_builds": 0, "traps": 0})
    # the model's answers for the points (values) and the 8-bit sweeps are compiler independent
    preq, pidx = [], []
    for c in combos:
        for (a, b) in pts[key(c)]:
            preq.append(f"c13 op {c['op']} {c['R']} {c['T']} {fmt_val(c['R'], a)} "
                        f"{fmt_val(c['R'] if FUNCTOR[c['op']][1] == 0 else c['T'], b)} {c['ul']}")
            pidx.append((key(c), a, b))
    pans = drv.ask(preq)
    mpoint = {k: kv(a) for k, a in zip(pidx, pans)}
    bad = [(q, a) for q, a in zip(preq, pans) if a == "bad-op"]
    if bad:
        raise RuntimeError(f"driver rejected generated request: {bad[0]}")
    sw = list(dict.fromkeys((c["op"], c["R"], c["T"]) for c in combos
                            if is_int(c["R"]) and BITS[c["R"]] == 8 and is_int(c["T"]) and BITS[c["T"]] == 8))
    sans = drv.ask([f"c13 sweep8 {o} {r} {t}" for (o, r, t) in sw])
    msweep3 = {k: kv(a) for k, a in zip(sw, sans)}
    sweep_raw = dict(zip(sw, sans))

    famfiles = {(fam, role): write_ops_harness(wd, combos, mt, fam, unit, header, role)
                for (fam, role) in sorted({(family(c[0]), c[3]) for c in configs})}
    built = compile_many(wd, [(compiler, std, tag, famfiles[(family(compiler), role)]) for (compiler, std, tag, role) in configs])
    for (compiler, std, tag, role) in configs:
        fam = family(compiler)
        cfg = f"{compiler} -std={std}"
        exact = compiler == "exact"
        objs, err = built[tag]
        exe = os.path.join(wd, f"ops_{tag}")
        if objs is not None:
            err = link(objs, exe, compiler)
        if err is not None:
            viol.append({"what": f"operator harness does not compile under {cfg}: an operator the model says this compiler accepts "
                                 f"is rejected (or the public API changed)", "class": "ops-build", "no_input": True,
                         "broken": "correspondence: Au.C13.qOp verdicts vs the compiler", "rec": {"kind": "build", "config": cfg},
                         "detail": err})
            continue
        lines, meta = [], []
        for c in combos:
            lines.append(f"T {c['op']} {c['R']} {c['T']} {c['ul']}")
            meta.append(("T", c, None, None))
        for r0 in REPS:
            lines.append(f"C {r0}")
            meta.append(("C", {"op": "constexpr", "R": r0, "T": r0, "ul": 0}, None, None))
        for c in combos:
            if mt[key(c)][fam] != "1" or types_only_by_design(c, role):
                continue
            if (c["op"], c["R"], c["T"]) in msweep3:
                lines.append(f"S {c['op']} {c['R']} {c['T']} {c['ul']}")
                meta.append(("S", c, None, None))
            for (a, b) in pts_for[role][key(c)]:
                bt = c["R"] if FUNCTOR[c["op"]][1] == 0 else c["T"]
                lines.append(f"P {c['op']} {c['R']} {c['T']} {c['ul']} {fmt_val(c['R'], a)} {fmt_val(bt, b)}")
                meta.append(("P", c, a, b))
        answers, errs = run_lines(exe, lines, heavy=lambda l: l[0] == "S")
        open(os.path.join(wd, f"ops_stderr_{tag}.txt"), "w").write("\n".join(errs))
        types = {}
        sampled_ops = set() if not any("request" in x and x["request"].startswith("P ") for x in samples) else set(FUNCTOR)
        for l, (kind, c, a, b), ans in zip(lines, meta, answers):
            m = mt.get(key(c), {})
            base = {"op": c["op"], "R": c["R"], "T": c["T"], "ul": c["ul"], "config": cfg}
            r = kv(ans)
            if ans.startswith("bad"):
                viol.append({"what": "operator harness rejected a request", "class": "ops-protocol", "no_input": True,
                             "broken": "harness protocol", "rec": dict(base, kind="protocol", line=l, answer=ans)})
                continue
            if ans.startswith("TRAP"):
                stats["traps"] += 1
                ta, tb2 = (a, b) if kind == "P" else (r.get("a"), r.get("b"))
                why = "CPU-time watchdog" if r.get("sig") == "24" else f"signal {r.get('sig')}"
                viol.append({"what": f"`{CPP_EXPR.get(c['op'], c['op'])}` on Quantity<{'UnitProductT<>' if c['ul'] else unit}, {c['R']}> (scalar {c['T']}) trapped ({why}) at "
                                     f"a={ta} b={tb2} where the built-in operator is defined", "class": f"trap-{c['op']}-{c['R']}",
                             "rec": dict(base, kind="trap", a=ta, b=tb2, sig=r.get("sig"), line=l)})
                continue
            if kind == "C":
                stats["op_constexpr_checks"] += int(r.get("n", 0))
                if r.get("bad") != "0":
                    viol.append({"what": f"inside constant expressions an operator of Quantity<{'UnitProductT<>' if c['ul'] else unit}, {c['R']}> (operand pairs (7,3): "
                                         f"{r.get('bad0')} bad, (max/2,2): {r.get('bad1')} bad, (lowest/2+1,2): {r.get('bad2')} bad) differs from "
                                         f"the built-in operator in value or type ({r.get('bad')} of {r.get('n')} expressions) [{cfg}]",
                                 "class": f"constexpr-{c['R']}", "rec": dict(base, kind="constexpr", a=7, b=3, impl=ans)})
                continue
            if kind == "T":
                stats["op_types_checked"] += 1
                types[key(c)] = r
                gated = (c["op"] in ("mulas", "divas") and is_int(c["R"]) and not is_int(c["T"])) or \
                        (c["op"] == "divl" and is_int(c["R"]) and is_int(c["T"]) and not c["ul"])
                raw_ok = m["rawok"] == "1"
                if gated:
                    stats["op_gated"] += 1
                if not raw_ok:
                    stats["op_raw_illformed"] += 1
                comp = r.get("compiled")
                if comp == "2" and m[fam] == "1" and types_only_by_design(c, role):
                    comp = "1"
                # correspondence with the model (verdict for this compiler family, both result types)
                exp = "1" if m[fam] == "1" else ("2" if (m["ty"] != "-" and c["op"] in ("mod", "pos", "neg") and raw_ok) else "0")
                mism = comp != exp
                if comp in ("1", "2"):
                    mism = mism or r.get("qty") != m["ty"] or r.get("rty") != m["rawty"]
                if mism:
                    viol.append({"what": f"model and compiler differ on the type/acceptance of `{CPP_EXPR[c['op']]}`", "class": "corr-type",
                                 "no_input": True, "broken": "correspondence: Au.C13.qOp / rawOp result types",
                                 "rec": dict(base, kind="corr-type", impl=ans, model=m)})
                # statement-level oracle: accepted wherever the built-in operator is (outside the documented gates),
                # with the same result type and the expected unit
                if raw_ok and not gated:
                    if comp != "1":
                        stats["f4_cases"] += 1
                        viol.append({"what": f"`{CPP_EXPR[c['op']]}` on Quantity<{'UnitProductT<>' if c['ul'] else unit}, {c['R']}> is rejected by {compiler} although the "
                                             f"built-in operator on {c['R']} is accepted", "class": f"accept-{c['op']}-{c['R']}",
                                     "rec": dict(base, kind="accept", impl=ans, narrowing_explains=in_f4(c))})
                    else:
                        want_unit = "U0" if c["ul"] else ("invU" if c["op"] == "divl" else "U")
                        unit_ok = r.get("unit") == want_unit or r.get("rty") == "bool"
                        if r.get("qty") != r.get("rty") or not unit_ok:
                            stats["f4_cases"] += 1
                            viol.append({"what": f"result type of `{CPP_EXPR[c['op']]}` on Quantity<{'UnitProductT<>' if c['ul'] else unit}, {c['R']}> is "
                                                 f"Quantity<{r.get('unit')}, {r.get('qty')}>, the built-in operator gives {r.get('rty')}",
                                         "class": f"type-{c['op']}-{c['R']}",
                                         "rec": dict(base, kind="type", impl=ans, narrowing_explains=in_f4(c))})
                elif not raw_ok and comp == "1":
                    viol.append({"what": f"`{CPP_EXPR[c['op']]}` is accepted on Quantity although the built-in operator is ill-formed",
                                 "class": "accept-extra", "rec": dict(base, kind="accept-extra", impl=ans)})
                continue
            if r.get("compiled") != "1":
                viol.append({"what": "operator harness did not evaluate a compiled entry", "class": "ops-protocol", "no_input": True,
                             "broken": "harness protocol", "rec": dict(base, kind="protocol", line=l, answer=ans)})
                continue
            tys = types.get(key(c), {})
            if kind == "S":
                ms = msweep3[(c["op"], c["R"], c["T"])]
                stats["op_sweeps"] += 1
                stats["op_sweep_values"] += int(r["n"])
                stats["ops_by_kind"][c["op"]] = stats["ops_by_kind"].get(c["op"], 0) + int(r["n"])
                if len(samples) < 5:
                    samples.append({"request": l, "harness": ans, "model": sweep_raw[(c["op"], c["R"], c["T"])], "config": cfg})
                if (r["n"], r["defined"], r["qhash"], r["rhash"]) != (ms["n"], ms["defined"], ms["hash"], ms["rawhash"]):
                    viol.append({"what": f"exhaustive 8-bit sweep of `{CPP_EXPR[c['op']]}`: model and implementation differ",
                                 "class": "corr-sweep", "no_input": True, "broken": "correspondence: c13 sweep8 (Au.C13.qOp / rawOp)",
                                 "rec": dict(base, kind="corr-sweep", impl=ans, model=ms)})
                if int(r["mism"]):
                    a0, b0 = (int(x) for x in r["first"].split(","))
                    stats["f4_cases"] += 1
                    viol.append({"what": f"`{CPP_EXPR[c['op']]}` on Quantity<{'UnitProductT<>' if c['ul'] else unit}, {c['R']}> differs from the built-in operator at "
                                         f"a={a0} b={b0} ({r['mism']} of {r['defined']} defined pairs)",
                                 "class": f"value-{c['op']}-{c['R']}",
                                 "rec": dict(base, kind="value", a=a0, b=b0, count=int(r["mism"]),
                                             narrowing_explains=narrowing_explains(c, a0, b0, None, None))})
                if int(r["ub"]) and not exact:
                    stats["ub_reports_nonexact_builds"] += int(r["ub"])
                if int(r["ub"]) and exact:
                    viol.append({"what": f"undefined behaviour (exact-count UBSan, {r['ub']} executions) while sweeping all 8-bit operand pairs of "
                                         f"`{CPP_EXPR[c['op']]}` on Quantity<{unit}, {c['R']}> (scalar {c['T']}), only on pairs where the built-in "
                                         f"operator is defined [{cfg}]",
                                 "class": f"ub-{c['op']}-{c['R']}", "rec": dict(base, kind="ub", impl=ans)})
                continue
            # single point
            stats["op_points"] += 1
            stats["ops_by_kind"][c["op"]] = stats["ops_by_kind"].get(c["op"], 0) + 1
            distinct.add((c["op"], c["R"], c["T"], a, b))
            mp = mpoint[(key(c), a, b)]
            pbase = dict(base, a=a, b=b)
            if c["op"] not in sampled_ops and r["def"] == "1" and a not in (0, 1) and (c["R"] != c["T"] or c["op"] in SAME_OPS) \
                    and (len(sampled_ops) % 3 != 0 or not is_int(c["R"])):
                sampled_ops.add(c["op"])
                samples.append({"request": l, "harness": ans, "model": pans[pidx.index((key(c), a, b))], "config": cfg})
            ints = is_int(c["R"]) and is_int(c["T"])
            if ints:
                stats["op_python_int_oracle"] += 1
                pty, pv = py_raw(c["op"], c["R"], c["T"], a, b)
                pdef = pv != "ub"
                if pty != tys.get("rty") or pdef != (r["def"] == "1") or (pdef and str(pv) != r["r"]):
                    viol.append({"what": "big-integer evaluation of the built-in operator disagrees with the compiled built-in operator "
                                         "(harness or oracle defect)", "class": "oracle-selfcheck", "no_input": True,
                                 "broken": "python oracle py_raw vs compiled raw operator",
                                 "rec": dict(pbase, kind="selfcheck", python=[pty, pv], impl=ans, types=tys)})
            if r["def"] == "0":
                stats["op_undefined_skipped"] += 1
                if mp["rawval"] != "ub" and mp["rawval"] != "-":
                    viol.append({"what": "harness and model differ on whether the built-in expression is defined", "class": "corr-defined",
                                 "no_input": True, "broken": "correspondence: Eval.ub of Au.C13.rawOp",
                                 "rec": dict(pbase, kind="corr-defined", impl=ans, model=mp)})
                continue
            # correspondence with the model (value of the Quantity operator and of the built-in operator)
            for side, got, want, code in (("q", r["q"], mp["val"], tys.get("qty", "")), ("r", r["r"], mp["rawval"], tys.get("rty", ""))):
                if want == "-":
                    stats["op_value_unmodelled_f80"] += 1
                    continue
                same = (got == want) or (want == "nan" and is_nan_bits(code, got))
                if not same:
                    viol.append({"what": f"model and implementation differ on the value of `{CPP_EXPR[c['op']]}` ({side} side)",
                                 "class": "corr-value", "no_input": True, "broken": "correspondence: c13 op (Au.C13.qOp / rawOp values)",
                                 "rec": dict(pbase, kind="corr-value", side=side, impl=ans, model=mp)})
            # statement-level oracle: bit-for-bit the built-in result (NaN: both NaN), no sanitizer report
            same = r["q"] == r["r"] or (is_nan_bits(tys.get("qty", ""), r["q"]) and is_nan_bits(tys.get("rty", ""), r["r"]))
            if not same:
                stats["f4_cases"] += 1
                viol.append({"what": f"`{CPP_EXPR[c['op']]}` on Quantity<{'UnitProductT<>' if c['ul'] else unit}, {c['R']}> gives {r['q']}, the built-in operator gives "
                                     f"{r['r']} (a={fmt_val(c['R'], a)}, b={fmt_val(c['R'] if FUNCTOR[c['op']][1] == 0 else c['T'], b)}) [{cfg}]", "class": f"value-{c['op']}-{c['R']}",
                             "rec": dict(pbase, kind="value", q=r["q"], r=r["r"],
                                         narrowing_explains=narrowing_explains(c, a, b, r["q"], r["r"]))})
            if r["ub"] != "0" and not exact:
                stats["ub_reports_nonexact_builds"] += int(r["ub"])
            if r["ub"] != "0" and exact:
                viol.append({"what": f"undefined behaviour (exact-count UBSan) in `{CPP_EXPR[c['op']]}` on Quantity<{'UnitProductT<>' if c['ul'] else unit}, "
                                     f"{c['R']}> (scalar {c['T']}) at a={fmt_val(c['R'], a)} b={b} where the built-in operator is defined [{cfg}]",
                             "class": f"ub-{c['op']}-{c['R']}", "rec": dict(pbase, kind="ub", impl=ans)})
        # negative probes: what the model says this compiler rejects must be rejected, for the modelled reason
        rej = [c for c in combos if mt[key(c)][fam] != "1"]
        by_reason = {}
        for c in rej:
            by_reason.setdefault(reject_reason(c), []).append(c)
        chosen = []
        for reason, cs in sorted(by_reason.items()):
            rng.shuffle(cs)
            if reason in ("narrowing", "modfloat") or tier == "thorough":
                chosen += cs
            elif role == "main":
                # permanent list: every integral rep and every scalar type occurs in a rejected combination of each gate and each
                # operator of the gate (a guard dropped for one rep or one scalar type only is seen in every run) + a sampled rest
                perm = [c for c in cs if not c["ul"] and permanent_gate_pair(c["R"], c["T"])]
                rest = [c for c in cs if c not in perm]
                chosen += perm + rest[:4]
            else:
                chosen += cs[:1]
        if tier == "thorough":
            chosen = chosen[:160]

        def probe(c):
            p = os.path.join(wd, f"neg_{tag}_{c['op']}_{c['R']}_{c['T']}_{c['ul']}.cc")
            open(p, "w").write(probe_src(c, unit, header))
            rc, out = cxx_default_diag(p, compiler, std)
            return c, rc, out
        for c, rc, out in pmap(probe, chosen):
            stats["neg_probes"] += 1
            base = {"op": c["op"], "R": c["R"], "T": c["T"], "ul": c["ul"], "config": cfg}
            reason = reject_reason(c)
            if rc == 0:
                viol.append({"what": f"`{CPP_EXPR[c['op']]}` compiles under {cfg} although the model says it is rejected ({reason})",
                             "class": "corr-accept", "no_input": True, "broken": "correspondence: Au.C13.qOp verdict",
                             "rec": dict(base, kind="corr-accept", reason=reason)})
            elif not any(s in out for s in NEG_DIAG.get(reason, [])):
                viol.append({"what": "negative probe rejected for an unexpected reason", "class": "corr-probe", "no_input": True,
                             "broken": "probe allow-list", "rec": dict(base, kind="corr-probe", reason=reason, out=out[-1200:])})
        stats.setdefault("sanitizer_reports", 0)
        stats["sanitizer_reports"] += sum(e.count("runtime error") for e in errs)


def in_f4(c):
    return c["op"] in ("mod", "pos", "neg") and c["R"] in ("i8", "u8", "i16", "u16")


def narrowing_explains(c, a, b, q, r):
    """F4: is the difference exactly `Quantity value = static_cast<R>(built-in value)`?"""
    if not (c["op"] in ("mod", "pos", "neg") and is_int(c["R"])):
        return False
    _, v = py_raw(c["op"], c["R"], c["T"], a, b)
    if v == "ub":
        return False
    if q is None:
        return py_conv(c["R"], v) != v
    try:
        return int(r) == v and int(q) == py_conv(c["R"], v)
    except ValueError:
        return False


# ------------------------------------------------------------------------------------------------
# (c) round trips
# ------------------------------------------------------------------------------------------------

def observe(obs, key, example, count=1):
    e = obs.setdefault(key, {"count": 0, "example": example})
    e["count"] += count


RT_PERMANENT_UNITS = [("Meters", "au::Meters", "meters.hh"), ("Celsius", "au::Celsius", "celsius.hh"),
                      ("Percent", "au::Percent", "percent.hh"), ("unitless", "au::UnitProductT<>", "meters.hh")]


def explore_rt(wd, drv, configs, rng, tier, stats, viol, samples, distinct):
    """Round trips for a seed-chosen library unit on every configuration, and — on the two main configurations, with the
    special values, the constexpr checks and the exhaustive 8/16-bit sweeps — for a permanent list of units of different
    kinds (a base unit, a unit with an origin, a scaled dimensionless unit, the unitless unit)."""
    units = library_units()
    unit, header = rng.choice(units)
    stats["rt_unit"] = unit
    stats.update({"rt_singles": 0, "rt_patterns": 0, "rt_all_float_configs": []})
    explore_rt_unit(wd, drv, configs, rng, tier, stats, viol, samples, distinct, unit, "au::" + unit, header, False)
    stats["rt_permanent_units"] = []
    for (un, ut, hd) in RT_PERMANENT_UNITS:
        if un == unit:
            continue
        stats["rt_permanent_units"].append(un)
        explore_rt_unit(wd, drv, [c for c in configs if c[3] == "main"][:2], rng, tier, stats, viol, samples, distinct, un, ut, hd, True)


def explore_rt_unit(wd, drv, configs, rng, tier, stats, viol, samples, distinct, unit, utype, header, light):
    src = H.RT.replace("@UNIT_INCLUDES@", unit_header_includes([header])).replace("@UNIT@", utype).replace("@CPU_LIMIT@", str(CPU_LIMIT))
    p = os.path.join(wd, f"rt_{unit}.cc")
    open(p, "w").write(src)
    singles = []
    for r in REPS:
        if is_int(r):
            vals = [lo(r), lo(r) + 1, -1 if lo(r) < 0 else 1, 0, 1, hi(r) - 1, hi(r)] + [rng.randrange(lo(r), hi(r) + 1) for _ in range(4)]
        else:
            vals = SPECIAL[r] + [rand_float_bits(rng, r) for _ in range(8)]
        singles += [(r, v) for v in dict.fromkeys(vals)]
    mans = drv.ask([f"c13 rt {r} {fmt_val(r, v)}" for r, v in singles])
    obs = stats.setdefault("observations", {})
    obs["_note"] = ("out of scope of C13, never reported: QuantityPoint::in(same unit) computes (x_ + ZERO) and a rep_cast, so for "
                    "floating reps unit_pt(x).in(unit_pt) turns -0.0 into +0.0 and quiets signalling NaNs")
    counts = {"f32": 1_000_000, "f64": 1_000_000, "f80": 500_000} if tier == "quick" else {"f32": 4_000_000, "f64": 16_000_000, "f80": 8_000_000}
    icount = 100_000 if tier == "quick" else 1_000_000
    def build(j):
        compiler, std, tag, _role = j
        exe = os.path.join(wd, f"rt_{unit}_{tag}")
        rc, out = cxx(p, exe, compiler=compiler, std=std, extra=no_uio(compiler))
        return tag, (exe, rc, out)
    builds = dict(pmap(build, configs))
    for ci, (compiler, std, tag, role) in enumerate(configs):
        cfg = f"{compiler} -std={std}"
        exe, rc, out = builds[tag]
        if rc != 0:
            viol.append({"what": f"round-trip harness does not compile under {cfg}", "class": "rt-build", "no_input": True,
                         "broken": "round-trip harness (unit(x).in(unit), data_in, unit_pt(x).in(unit_pt))",
                         "rec": {"kind": "build", "config": cfg}, "detail": out[-4000:]})
            continue
        lines, meta = [], []
        for (r, v) in singles:
            lines.append(f"R {r} {fmt_val(r, v)}")
            meta.append(("R", r, v))
        for r in ("i8", "u8", "i16", "u16"):
            lines.append(f"A {r}")
            meta.append(("A", r, None))
        for r in REPS:
            lines.append(f"K {r}")
            meta.append(("K", r, None))
        for r in REPS:
            n = counts.get(r, icount) if (role == "main" and not light) else 20_000
            per = 8 if (not is_int(r) and role == "main" and not light) else 1
            for k in range(per):
                lines.append(f"N {r} {n // per} {rng.getrandbits(63)}")
                meta.append(("N", r, None))
        full = tier == "thorough" and not light and (compiler, std) in (("g++", "c++14"), ("clang++-14", "c++17"), ("exact", "c++14"))
        if full:
            for s in range(64):
                lines.append(f"F {s} 64")
                meta.append(("F", "f32", None))
            stats["rt_all_float_configs"].append(cfg)
        answers, errs = run_lines(exe, lines, heavy=lambda l: l[0] in "FN")
        for l, (kind, r, v), ans, in zip(lines, meta, answers):
            d = kv(ans)
            if ans.startswith("bad"):
                viol.append({"what": "round-trip harness rejected a request", "class": "rt-protocol", "no_input": True,
                             "broken": "harness protocol", "rec": {"kind": "protocol", "line": l, "answer": ans}})
                continue
            if ans.startswith("TRAP"):
                viol.append({"what": f"round-trip harness trapped (signal {d.get('sig')}) on request `{l}`", "class": f"rt-trap-{r}",
                             "rec": {"kind": "trap", "R": r, "x": fmt_val(r, v) if v is not None else None, "line": l, "config": cfg}})
                continue
            if kind == "K":
                stats["rt_constexpr_checks"] = stats.get("rt_constexpr_checks", 0) + int(d.get("n", 0))
                if d.get("bad") != "0":
                    viol.append({"what": f"inside a constant expression unit(x).in(unit) does not return x bit-for-bit for {r} "
                                         f"({d.get('bad')} of {d.get('n')} special values: +-0, +-inf, NaN payloads, denorm_min, max / lowest)",
                                 "class": f"q-roundtrip-constexpr-{r}", "rec": {"kind": "q-roundtrip", "R": r, "x": "constexpr specials",
                                                                               "config": cfg, "impl": ans}})
                continue
            if kind == "R":
                stats["rt_singles"] += 1
                distinct.add(("rt", r, v))
                x = fmt_val(r, v)
                m = kv(mans[singles.index((r, v))])
                if len(samples) < 16 and not is_int(r) and v in (SPECIAL[r][1], SPECIAL[r][6]) and ci == 0:
                    samples.append({"request": l, "harness": ans, "model": mans[singles.index((r, v))], "config": cfg})
                forms = {"q": "unit(x).in(unit)", "q2": "make_quantity<U>(x).in(U{})", "q3": "data_in(U{})", "q4": "unit(x).in<R>(unit)",
                         "q5": "make_quantity<U>(x).in<R>(U{})", "q6": "coerce_in(U{})", "q7": "in(SymbolFor<U>{})",
                         "q8": "in(Kilo<Milli<U>>{})", "q9": "const copy .in(unit)"}
                badf = [f"{forms[k2]} = {d.get(k2)}" for k2 in forms if d.get(k2) != x]
                if badf:
                    viol.append({"what": f"the Quantity round trip (unit {unit}) does not return x bit-for-bit for {r} x={x}: " + "; ".join(badf[:4]),
                                 "class": f"q-roundtrip-{r}", "rec": {"kind": "q-roundtrip", "R": r, "x": x, "config": cfg, "impl": ans, "unit": unit, "unit_type": utype,
                                                                       "unit_header": header}})
                if m["q"] != d["q"]:
                    viol.append({"what": "model and implementation differ on the Quantity round trip", "class": "corr-rt", "no_input": True,
                                 "broken": "correspondence: Au.C13.qRoundTrip", "rec": {"kind": "corr-rt", "R": r, "x": x, "impl": ans, "model": m}})
                # QuantityPoint round trip: out of scope of C13 -> observations only
                if m["pt"] != "-" and not (m["pt"] == d["pt"] or (m["pt"] == "nan" and is_nan_bits(r, d["pt"]))):
                    observe(obs, "point_roundtrip_model_drift", f"{r} x={x}: model {m['pt']}, implementation {d['pt']} ({cfg})")
                if d["pt"] != x:
                    cls = "nan" if is_nan_bits(r, x) else ("neg0" if (not is_int(r) and v == 1 << (8 * FBYTES[r] - 1)) else "other")
                    observe(obs, f"point_roundtrip_not_bit_exact_{cls}", f"unit_pt(x).in(unit_pt) for {r}: x={x} gives {d['pt']} ({cfg})")
            else:
                n = int(d["n"])
                stats["rt_patterns"] += n
                if int(d["qbad"]):
                    viol.append({"what": f"unit(x).in(unit) (unit {unit}) does not return x bit-for-bit for {r} x={d['qfirst']} ({d['qbad']} of {n} patterns)",
                                 "class": f"q-roundtrip-{r}", "rec": {"kind": "q-roundtrip", "R": r, "x": d["qfirst"], "config": cfg, "impl": ans,
                                                                       "unit": unit, "unit_type": utype, "unit_header": header}})
                if int(d["pdiff"]):
                    for k2, name in (("pneg0", "neg0"), ("pnan", "nan"), ("pother", "other")):
                        if int(d[k2]):
                            observe(obs, f"point_roundtrip_not_bit_exact_{name}",
                                    f"unit_pt(x).in(unit_pt) for {r}: first differing x={d['pfirst']} ({cfg})", int(d[k2]))
                if int(d["pmodel"]):
                    observe(obs, "point_roundtrip_model_drift", f"{r} x={d['pmfirst']}: not (x + 0) * 1 on raw values ({cfg})", int(d["pmodel"]))
            if d.get("ub", "0") != "0" and compiler == "exact":
                viol.append({"what": "undefined behaviour (exact-count UBSan) during a round trip", "class": "rt-ub", "rec": {"kind": "ub", "R": r, "impl": ans, "config": cfg}})


# ------------------------------------------------------------------------------------------------

def pick_configs(tier, seed):
    """(compiler, std, tag, role).  The statement quantifies over g++ and clang++ at C++14/17/20, so every quick run builds all
    six compiler x standard combinations: two "main" configurations — g++ c++14 (ASan + UBSan) and "exact" (clang++-14 front
    end and code generation, exact-count UBSan) at a seed-chosen standard — get the full directed grids, the random points, all
    units and the long round-trip sweeps; the other four ("extra") get every type/acceptance check, every exhaustive 8-bit
    sweep, the constant-expression checks, a smaller directed grid of the same special values, the special-value round
    trips and a reduced unit list.  thorough: all six plus "exact", all "main"."""
    if tier == "thorough":
        return [("g++", "c++14", "g14", "main"), ("g++", "c++17", "g17", "main"), ("g++", "c++20", "g20", "main"),
                ("clang++-14", "c++14", "c14", "main"), ("clang++-14", "c++17", "c17", "main"), ("clang++-14", "c++20", "c20", "main"),
                ("exact", "c++14", "x14", "main")]
    stds = ["c++14", "c++17", "c++20"]
    std2 = stds[seed % 3]
    out = [("g++", "c++14", "g14", "main"), ("exact", std2, "x" + std2[-2:], "main")]
    out += [("g++", sd, "g" + sd[-2:], "extra") for sd in stds if sd != "c++14"]
    out += [("exact", sd, "x" + sd[-2:], "extra") for sd in stds if sd != std2]
    return out


def cleanup_stale_workdirs():
    """Scratch directories of earlier runs are kept when something was reported; remove those whose process is gone and
    that are older than half an hour (the most recent one stays available long enough for inspection)."""
    from vlib import WORKROOT
    if not os.path.isdir(WORKROOT):          # first check ever run in a fresh checkout
        return
    for d in os.listdir(WORKROOT):
        m = re.match(rf"^{PROP}\.run(\d+)$", d)
        if not m:
            continue
        path = os.path.join(WORKROOT, d)
        try:
            os.kill(int(m.group(1)), 0)
            alive = True
        except OSError:
            alive = False
        try:
            if not alive and time.time() - os.path.getmtime(path) > 1800:
                shutil.rmtree(path, ignore_errors=True)
        except OSError:
            pass


def main(tier, seed):
    t0 = time.time()
    # private scratch directory: vlib.workdir(PROP) is wiped by every start of this check, and two runs of it may overlap
    # (a concurrent run once removed the object files of a thorough run between compile and link)
    cleanup_stale_workdirs()
    wd = workdir(f"{PROP}.run{os.getpid()}")
    rng = rng_for(PROP, seed)
    viol, samples, distinct = [], [], set()
    stats = {}
    # 1. regenerate the class descriptors from the AST of the tree under test (before the Lean build)
    try:
        descs, changed = c13_extract.regenerate(wd)
        stats["classes_regenerated"] = changed
        stats["class_descriptors"] = {d["name"]: {"fields": [[f["name"], list(f["ty"]), f["access"], list(f["init"])] for f in d["fields"]],
                                                   "bases": d["bases"], "virtual_fns": d["nVirtualFns"],
                                                   "user_special": [k for k in ("userCopyCtor", "userMoveCtor", "userCopyAssign",
                                                                                "userMoveAssign", "userDtor") if d[k]]}
                                      for d in descs}
    except Exception as e:      # noqa: BLE001
        viol.append({"what": f"class descriptor extraction failed: {e}", "class": "extract", "no_input": True,
                     "broken": "tools/c13_extract.py", "rec": {"kind": "extract"}})
    proof = prove(PROP)
    configs = pick_configs(tier, seed)
    stats["configs"] = [f"{c} -std={s} [{role}]" + (" (clang++-14, exact-count UBSan handlers, no ASan)" if c == "exact" else "")
                        for c, s, _, role in configs]
    stats["ub_counting"] = ("exact per input / per sweep in the `exact` configuration; informational (once per source location, "
                            "never under g++) in the ASan+UBSan configurations")
    if proof.get("build_ok"):
        drv = Driver()
        nunits = 0
        for name, fn in (("layout", lambda: explore_layout(wd, drv, configs, rng, tier, stats, viol, samples)),
                         ("ops", lambda: explore_ops(wd, drv, configs, rng, tier, seed, stats, viol, samples, distinct)),
                         ("rt", lambda: explore_rt(wd, drv, configs, rng, tier, stats, viol, samples, distinct))):
            t1 = time.time()
            try:
                res = fn()
                if name == "layout":
                    nunits = res
            except RuntimeError as e:     # a harness or the driver died: that is a result, not a crash of the check
                viol.append({"what": f"{name} exploration aborted: {str(e)[:300]}", "class": f"abort-{name}", "no_input": True,
                             "broken": f"correspondence: {name} harness / driver run", "rec": {"kind": "abort", "part": name},
                             "detail": str(e)[-4000:]})
            stats[f"{name}_s"] = round(time.time() - t1, 1)
    else:
        # The Lean side does not build.  If it is the data obligation over Generated/Classes, look for the concrete
        # (unit, rep) on which the statement fails by running the layout harness without the model.
        nunits = 0
        try:
            ok, _ = __import__("vlib").lake_build(["audriver"])
            if ok:
                drv = Driver()
                explore_layout(wd, drv, configs[:1], rng, tier, stats, viol, samples)
        except Exception as e:      # noqa: BLE001
            stats["layout_search_error"] = str(e)[:500]
    # a broken `.in()` also shows up in every operator value (results are read through it): report it first
    viol.sort(key=lambda v: 0 if v.get("rec", {}).get("kind") == "q-roundtrip" else 1)
    total = (stats.get("layout_rows", 0) * 2 + stats.get("op_points", 0) + stats.get("op_sweep_values", 0)
             + stats.get("op_types_checked", 0) + stats.get("rt_singles", 0) + stats.get("rt_patterns", 0) + stats.get("neg_probes", 0))
    coverage = {
        "evaluations": total,
        "distinct_nontrivial": len(distinct) + stats.get("op_combos", 0) + nunits * len(REPS) * 2,
        "rule": "case = one of: (class, unit, rep) layout row [Quantity and QuantityPoint; every library unit, the unitless unit, one "
                "generated unit of every kind (product, quotient, power, root, scaled, scaled by one, prefixed, inverse, quantity-equivalent "
                "but differently typed, common unit) + random ones; 11 reps; sizeof/alignof/3 type traits and the object bytes after `T t;`, "
                "`T{}`, `T()` and a constexpr `T{}`]; (operator, R, T, unit kind, a, b) operator evaluation [13 same-type operators x 11 reps and "
                "6 scalar operators (q*s, s*q, q/s, s/q, *=, /=) x 11x11 rep pairs, each also on the unitless unit; ALL 65536 operand pairs for "
                "8-bit reps; a DIRECTED grid identical in every run: every boundary of each rep (min, max, 2^7..2^63 and neighbours, 0, +-1, +-2, "
                "zero divisor, lo/-1, operands whose result sits at the edge of the common type) and for floating reps +-0, +-inf, quiet and "
                "signalling NaNs with payloads, smallest denormal, max, +-1, 1+ulp, as full pairs; plus seed-dependent random points]; the same "
                "operators inside constant expressions; (operator, R, T) result-type/acceptance check; negative compile probe; (rep, x) round "
                "trip in nine spellings (maker/unit slot, rep-explicit in<R>, coerce_in, data_in, unit symbol, equivalent unit type, const "
                "copy) [special values, inside constant expressions, all values of 8/16-bit reps, random bit patterns; all 2^32 float patterns "
                "in the thorough tier].  Every quick run builds all six g++/clang++ x C++14/17/20 combinations (two with the full grids, four "
                "with all type checks, sweeps and a smaller directed grid).  distinct_nontrivial = distinct operator points + round-trip "
                "singles + operator combinations + layout (class, unit, rep) triples",
        "samples": samples,
        "exhaustive": False,
        "distribution": stats,
    }
    code = finish(PROP, tier, seed, t0, proof, coverage, viol, ASSUME)
    if code == 0:
        shutil.rmtree(wd, ignore_errors=True)      # kept for inspection when something was reported
    return code


# ------------------------------------------------------------------------------------------------
# replay
# ------------------------------------------------------------------------------------------------

def replay(path):
    rec = json.load(open(path))
    r = rec.get("rec", {})
    print(json.dumps(r, indent=1, default=str)[:3000])
    kind = r.get("kind")
    wd = workdir(PROP + "_replay")
    drv = Driver()
    cfg = r.get("config", "g++ -std=c++14").split()
    compiler, std = cfg[0], cfg[1].replace("-std=", "")
    units = library_units()
    unit, header = units[0]
    bad = False
    if kind in ("accept", "type", "value", "corr-type", "corr-value", "corr-sweep", "ub", "corr-defined", "selfcheck", "corr-accept",
                "accept-extra"):
        c = {"op": r["op"], "R": r["R"], "T": r["T"], "ul": int(r.get("ul", 0))}
        mt = model_types(drv, [c])
        fam = family(compiler)
        print("model :", mt[key(c)])
        src = os.path.join(wd, "probe.cc")
        open(src, "w").write(probe_src(c, unit, header))
        rc, out = cxx_default_diag(src, compiler, std)
        print(f"compiler verdict ({compiler} -std={std}):", "accepted" if rc == 0 else "rejected")
        if rc != 0:
            print(out[-600:])
        if (rc == 0) != (mt[key(c)]["rawok"] == "1"):
            bad = True
        if rc == 0 and "a" in r:
            files = write_ops_harness(wd, [c], {key(c): dict(mt[key(c)], **{fam: "1"})}, fam, unit, header)
            objs, err = compile_objs(wd, files, compiler, std, "rp")
            exe = os.path.join(wd, "ops_rp")
            err = err or link(objs, exe, compiler)
            if err:
                print("replay: harness does not build:", err["output"][-1500:])
                return 1
            bt = c["R"] if FUNCTOR[c["op"]][1] == 0 else c["T"]
            ans, _ = run_lines(exe, [f"T {c['op']} {c['R']} {c['T']} {c['ul']}",
                                     f"P {c['op']} {c['R']} {c['T']} {c['ul']} {fmt_val(c['R'], int(r['a']))} {fmt_val(bt, int(r['b']))}"], shards=1)
            print("impl  :", ans[0], "|", ans[1])
            print("model :", drv.ask([f"c13 op {c['op']} {c['R']} {c['T']} {fmt_val(c['R'], int(r['a']))} {fmt_val(bt, int(r['b']))} {c['ul']}"])[0])
            t, p = kv(ans[0]), kv(ans[1])
            if t.get("qty") != t.get("rty") or (p.get("def") == "1" and p.get("q") != p.get("r")
                                                 and not (is_nan_bits(t.get("qty", ""), p["q"]) and is_nan_bits(t.get("rty", ""), p["r"]))):
                bad = True
    elif kind in ("q-roundtrip", "pt-roundtrip", "corr-rt", "corr-ptrt"):
        src = H.RT.replace("@UNIT_INCLUDES@", unit_header_includes([r.get("unit_header", header)])) \
            .replace("@UNIT@", r.get("unit_type", "au::" + unit)).replace("@CPU_LIMIT@", str(CPU_LIMIT))
        p = os.path.join(wd, "rt.cc")
        open(p, "w").write(src)
        exe = os.path.join(wd, "rt")
        rc, out = cxx(p, exe, compiler=compiler, std=std)
        if rc != 0:
            print("replay: harness does not build:", out[-1500:])
            return 1
        ans, _ = run_lines(exe, [f"R {r['R']} {r['x']}"], shards=1)
        print("impl  :", ans[0])
        print("model :", drv.ask([f"c13 rt {r['R']} {r['x']}"])[0])
        d = kv(ans[0])
        bad = d["q"] != r["x"]     # the point round trip is out of scope of C13
    elif kind == "layout":
        src = H.LAYOUT.replace("@UNIT_INCLUDES@", unit_header_includes(r.get("unit_headers") or [h for _, h in units]))
        ut = r.get("unit_type") or "au::" + r["unit"]
        p = os.path.join(wd, "layout.cc")
        open(p, "w").write(src.replace("@ROWS@", f'    {{ using UT = {ut}; ROWS(UT, "{r["unit"]}") }}'))
        exe = os.path.join(wd, "layout")
        rc, out = cxx(p, exe, compiler=compiler, std=std)
        if rc != 0:
            print("replay: harness does not build:", out[-1500:])
            return 1
        rc, o, e = run([exe], env=UBSAN_ENV)
        for l in o.split("\n"):
            if l.startswith("L ") and l.split()[2] == r["R"]:
                print("impl  :", l)
                d = kv(l)
                bad = not (d["sq"] == d["sr"] == d["sp"] and d["aq"] == d["ar"] == d["ap"] and int(d["fq"]) & 511 == 511 and int(d["fp"]) & 511 == 511)
        print("model :", drv.ask([f"c13 layout {r['cls']} {r['R']}"])[0])
    else:
        print("replay: the record names a broken obligation or correspondence relation:", rec.get("broken"))
        return 1
    if bad:
        print(f"VIOLATION property={PROP} replay={path}")
        return 1
    print("replay: property holds on this case")
    return 0

"""C14 — products, quotients and powers combine values raw-wise and units algebraically."""
import json
import os
import time
from fractions import Fraction

import aulib
import uexpr
from vlib import UBSAN_ENV, Driver, cxx, finish, kv, pmap, prove, rng_for, run, workdir

PROP = "C14"
ASSUME = [
    "'exactly the raw operator' is checked against the raw operator / std function compiled by the same compiler on the same operands "
    "(bit-exact for floats); operands are chosen so that the raw signed operation itself does not overflow",
    "unit algebra of the result rests on C02's theorems; collapse/guard logic on C14's",
]
REPS = ["i8", "u8", "i16", "u16", "i32", "u32", "i64", "u64", "f32", "f64", "f80"]
CT = {"i8": "int8_t", "u8": "uint8_t", "i16": "int16_t", "u16": "uint16_t", "i32": "int32_t", "u32": "uint32_t",
      "i64": "int64_t", "u64": "uint64_t", "f32": "float", "f64": "double", "f80": "f80_t"}

PRELUDE = r'''using f80_t = long double;
#include <cmath>
#include <cstdint>
#include <cstdio>
#include <cstring>
#include <string>
#include <type_traits>
#include <vector>
#include "au/au.hh"
#include "au/prefix.hh"
#include "au/math.hh"
%s
#include "%s"
static volatile long g_ub = 0;
extern "C" void __ubsan_on_report(void) { g_ub = g_ub + 1; }
static unsigned long long g_lcg = %dULL;
static unsigned long long rnd() { g_lcg = g_lcg * 6364136223846793005ULL + 1442695040888963407ULL; return g_lcg >> 11; }
template <typename R, bool IsInt = std::is_integral<R>::value> struct Vals;
template <typename R> struct Vals<R, true> {
    static std::vector<R> get(int n) {
        std::vector<R> v;
        if (sizeof(R) == 1) { for (int x = std::numeric_limits<R>::lowest(); x <= std::numeric_limits<R>::max(); ++x) v.push_back(R(x)); return v; }
        // magnitudes small enough that products of two operands cannot overflow the promoted type
        const long long lim = sizeof(R) == 2 ? 32767 : (sizeof(R) == 4 ? 46340 : 3037000499LL);
        const long long lo = std::is_signed<R>::value ? -lim : 0;
        long long b[] = {0, 1, 2, 3, 7, lim, lim - 1, lo, lo + 1, -1, 10, 100, 255, 256};
        for (long long x : b) if (x >= lo && x <= lim) v.push_back(R(x));
        while ((int)v.size() < n) { long long x = (long long)(rnd() %% (unsigned long long)(lim - lo + 1)) + lo; v.push_back(R(x)); }
        return v;
    }
};
template <typename R> struct Vals<R, false> {
    static std::vector<R> get(int n) {
        std::vector<R> v = {R(0), R(-0.0), R(1), R(-1), R(0.5), R(3), R(1e10), R(-2.5e-7), std::numeric_limits<R>::max(),
                            std::numeric_limits<R>::min(), std::numeric_limits<R>::denorm_min(), std::numeric_limits<R>::infinity(),
                            -std::numeric_limits<R>::infinity(), std::numeric_limits<R>::quiet_NaN(), R(1e-30), R(123456.789)};
        while ((int)v.size() < n) { double m = (double)(rnd() %% 2000001ULL) / 1000.0 - 1000.0; int e = (int)(rnd() %% 40) - 20; v.push_back(R(std::ldexp(m, e))); }
        return v;
    }
};
template <typename T> bool same_bits(T a, T b) { return std::memcmp(&a, &b, std::is_same<T, long double>::value ? 10 : sizeof(T)) == 0 || (a != a && b != b); }   // x87 long double: 10 value bytes + padding
template <typename P, bool IsArith = std::is_arithmetic<P>::value> struct Res;
template <typename P> struct Res<P, true> {
    using Rep = P; static const char* kind() { return "raw"; } static std::string dim() { return "-"; } static std::string mag() { return "-"; }
    static Rep val(P p) { return p; } };
template <typename P> struct Res<P, false> {
    using Rep = typename P::Rep; static const char* kind() { return "q"; }
    static std::string dim() { return vser::dim_str<typename P::Unit>(); } static std::string mag() { return vser::mag_str<typename P::Unit>(); }
    static Rep val(P p) { return p.in(typename P::Unit{}); } };
template <typename U1, typename R1, typename U2, typename R2, bool DivAllowed> struct Div {
    static void run(const std::vector<R1>&, const std::vector<R2>&) { printf(" divkind=- divdim=- divmag=- divrep=- divbad=0"); } };
template <typename U1, typename R1, typename U2, typename R2> struct Div<U1, R1, U2, R2, true> {
    static void run(const std::vector<R1>& A, const std::vector<R2>& B) {
        using P = decltype(au::make_quantity<U1>(R1{1}) / au::make_quantity<U2>(R2{1}));
        using Raw = decltype(R1{1} / R2{1});
        long bad = 0;
        for (R1 a : A) for (R2 b : B) {
            if (std::is_integral<R2>::value && b == R2(0)) continue;
            if (std::is_integral<Raw>::value && std::is_signed<Raw>::value && b == R2(-1) && (long long)a == (long long)std::numeric_limits<Raw>::lowest()) continue;
            auto got = Res<P>::val(au::make_quantity<U1>(a) / au::make_quantity<U2>(b));
            Raw want = a / b;
            if (!same_bits<Raw>(Raw(got), want)) ++bad;
        }
        printf(" divkind=%%s divdim=%%s divmag=%%s divrep=%%d divbad=%%ld", Res<P>::kind(), Res<P>::dim().c_str(), Res<P>::mag().c_str(),
               int(std::is_same<typename Res<P>::Rep, Raw>::value), bad);
    } };
template <typename U1, typename R1, typename U2, typename R2, bool DivAllowed> void prod_case(int id, int n) {
    auto A = Vals<R1>::get(n); auto B = Vals<R2>::get(n);
    using P = decltype(au::make_quantity<U1>(R1{1}) * au::make_quantity<U2>(R2{1}));
    using Raw = decltype(R1{1} * R2{1});
    long bad = 0, cnt = 0; long ub0 = g_ub;
    for (R1 a : A) for (R2 b : B) { ++cnt;
        auto got = Res<P>::val(au::make_quantity<U1>(a) * au::make_quantity<U2>(b));
        Raw want = a * b;
        if (!same_bits<Raw>(Raw(got), want)) ++bad; }
    printf("P %%d n=%%ld mulkind=%%s muldim=%%s mulmag=%%s mulrep=%%d mulbad=%%ld", id, cnt, Res<P>::kind(), Res<P>::dim().c_str(), Res<P>::mag().c_str(),
           int(std::is_same<typename Res<P>::Rep, Raw>::value), bad);
    Div<U1, R1, U2, R2, DivAllowed>::run(A, B);
    printf(" ub=%%ld\n", g_ub - ub0);
}
template <typename U, typename R, bool IsFloat = std::is_floating_point<R>::value> struct Pows {
    static void run(int id, int n) {          // integral rep: int_pow<2>, int_pow<3> only
        auto A = Vals<R>::get(n); long bad = 0, narrowed = 0;
        for (R a : A) {
            if (a != 0) {   // integer divided by an integral quantity, divisor wrapped in unblock_int_div: the raw (promoted) quotient, inverse unit
                auto sq = R{7} / au::unblock_int_div(au::make_quantity<U>(a));
                auto w = R{7} / a;
                static_assert(std::is_same<typename decltype(sq)::Rep, decltype(w)>::value, "x / unblock_int_div(q) must have the raw quotient's type");
                if (sq.in(decltype(sq)::unit) != w) ++bad;
            }
            if ((long long)a > 1290 || (long long)a < -1290) continue;
            auto p2 = au::int_pow<2>(au::make_quantity<U>(a)); auto p3 = au::int_pow<3>(au::make_quantity<U>(a));
            auto w2 = a * a; auto w3 = a * a * a;
            if (p2.in(decltype(p2)::unit) != w2) { if (p2.in(decltype(p2)::unit) == static_cast<R>(w2)) ++narrowed; else ++bad; }
            if (p3.in(decltype(p3)::unit) != w3) { if (p3.in(decltype(p3)::unit) == static_cast<R>(static_cast<R>(w2) * a)) ++narrowed; else ++bad; } }
        using P2 = decltype(au::int_pow<2>(au::make_quantity<U>(R{1}))); using P3 = decltype(au::int_pow<3>(au::make_quantity<U>(R{1})));
        printf("W %%d p2dim=%%s p2mag=%%s p3dim=%%s p3mag=%%s bad=%%ld narrowed=%%ld\n", id, vser::dim_str<typename P2::Unit>().c_str(), vser::mag_str<typename P2::Unit>().c_str(),
               vser::dim_str<typename P3::Unit>().c_str(), vser::mag_str<typename P3::Unit>().c_str(), bad, narrowed);
    } };
template <typename U, typename R> struct Pows<U, R, true> {
    static void run(int id, int n) {
        auto A = Vals<R>::get(n); long bad = 0;
        for (R a : A) {
            auto q = au::make_quantity<U>(a);
            auto p2 = au::int_pow<2>(q); auto p3 = au::int_pow<3>(q); auto m1 = au::int_pow<-1>(q); auto m2 = au::int_pow<-2>(q);
            auto s = au::sqrt(q); auto c = au::cbrt(q);
            if (!same_bits<R>(p2.in(decltype(p2)::unit), a * a)) ++bad;
            if (!same_bits<R>(p3.in(decltype(p3)::unit), a * (a * a)) && !same_bits<R>(p3.in(decltype(p3)::unit), (a * a) * a)) ++bad;
            if (!same_bits<R>(m1.in(decltype(m1)::unit), R{1} / a)) ++bad;
            if (!same_bits<R>(m2.in(decltype(m2)::unit), R{1} / (a * a))) ++bad;
            // raw number divided by a quantity: the raw quotient, in the inverse unit
            auto sq = R{3} / q;
            static_assert(std::is_same<typename decltype(sq)::Unit, typename decltype(m1)::Unit>::value, "x / q must have the inverse unit");
            if (!same_bits<R>(sq.in(decltype(sq)::unit), R{3} / a)) ++bad;
            auto qs = q / R{3}; auto sm = R{3} * q; auto ms = q * R{3};
            if (!same_bits<R>(qs.in(U{}), a / R{3}) || !same_bits<R>(sm.in(U{}), R{3} * a) || !same_bits<R>(ms.in(U{}), a * R{3})) ++bad;
            if (!same_bits<R>(s.in(decltype(s)::unit), std::sqrt(a))) ++bad;
            if (!same_bits<R>(c.in(decltype(c)::unit), std::cbrt(a))) ++bad;
        }
        using P2 = decltype(au::int_pow<2>(au::make_quantity<U>(R{1}))); using P3 = decltype(au::int_pow<3>(au::make_quantity<U>(R{1})));
        using M1 = decltype(au::int_pow<-1>(au::make_quantity<U>(R{1}))); using S = decltype(au::sqrt(au::make_quantity<U>(R{1})));
        using C = decltype(au::cbrt(au::make_quantity<U>(R{1})));
        printf("W %%d p2dim=%%s p2mag=%%s p3dim=%%s p3mag=%%s m1dim=%%s m1mag=%%s sdim=%%s smag=%%s cdim=%%s cmag=%%s bad=%%ld\n", id,
               vser::dim_str<typename P2::Unit>().c_str(), vser::mag_str<typename P2::Unit>().c_str(),
               vser::dim_str<typename P3::Unit>().c_str(), vser::mag_str<typename P3::Unit>().c_str(),
               vser::dim_str<typename M1::Unit>().c_str(), vser::mag_str<typename M1::Unit>().c_str(),
               vser::dim_str<typename S::Unit>().c_str(), vser::mag_str<typename S::Unit>().c_str(),
               vser::dim_str<typename C::Unit>().c_str(), vser::mag_str<typename C::Unit>().c_str(), bad);
    } };
using au::pow; using au::root;
#define UT(...) au::AssociatedUnitT<std::decay_t<decltype(__VA_ARGS__)>>
'''


def gen_unit(rng, A, pool):
    """A unit: atom, scaled atom, or small compound."""
    r = rng.random()
    if r < 0.5:
        return ("atom", rng.choice(pool))
    if r < 0.7:
        return ("scale", ("atom", rng.choice(pool)), rng.choice(uexpr.SCALES[:8]))
    if r < 0.85:
        return ("div", ("atom", rng.choice(pool)), ("atom", rng.choice(pool)))
    return ("pow", ("atom", rng.choice(pool)), rng.choice([Fraction(2), Fraction(-1)]))


def main(tier, seed):
    t0 = time.time()
    wd = workdir(PROP)
    rng = rng_for(PROP, seed)
    proof = prove(PROP)
    A = uexpr.Atoms(wd, rng, n_prefixed=24)
    ncases = 140 if tier == "quick" else 1500
    # pairs (atom, differently-typed equivalent): another atom of the same dimension rescaled to the same magnitude, the
    # inverse of an atom with inverse signature, or a product / quotient of two atoms with the same signature
    def hsig(dm):
        return (tuple(sorted(dm[0].items())), tuple(sorted((b, Fraction(e)) for b, e in dm[1].items())))
    plain = [k for k in A.atoms if not A.atoms[k]["has_origin"]]
    by_dim = {}
    for k in plain:
        by_dim.setdefault(tuple(sorted(A.atoms[k]["dim"].items())), []).append(k)
    equiv_partners = []
    for ks in by_dim.values():
        for a in ks:
            for b in ks:
                if a != b and A.sig(a) != A.sig(b):
                    ratio = uexpr.add(A.atoms[a]["mag"], A.atoms[b]["mag"], -1)
                    if all(abs(Fraction(e)) <= 40 and (bb == "pi" or int(bb[1:]) < 10 ** 6) for bb, e in ratio.items()):
                        equiv_partners.append((("atom", a), ("scale", ("atom", b), uexpr.scale_of(ratio))))
    sig_of = {}
    for k in plain:
        sig_of.setdefault(hsig(uexpr.sem(("atom", k), A)), k)
    some = rng.sample(plain, min(len(plain), 40))
    for b in some:
        t = ("pow", ("atom", b), Fraction(-1))
        a = sig_of.get(hsig(uexpr.sem(t, A)))
        if a and a != b:
            equiv_partners.append((("atom", a), t))
        for c in some:
            for t in (("mul", ("atom", b), ("atom", c)), ("div", ("atom", b), ("atom", c))):
                a = sig_of.get(hsig(uexpr.sem(t, A)))
                if a and a not in (b, c) and b != c:
                    equiv_partners.append((("atom", a), t))
    rng.shuffle(equiv_partners)
    equiv_partners = equiv_partners[:400]
    cases = []
    rep_grid = []
    while len(cases) < ncases:
        pool = uexpr.twin_free_pool(rng, A, 10)
        u1 = gen_unit(rng, A, pool)
        r = rng.random()
        if r < 0.25:
            # cancelling partner: inverse (product collapses iff magnitudes cancel too), possibly off by a scale factor
            u2 = ("pow", u1, Fraction(-1)) if rng.random() < 0.6 else ("scale", ("pow", u1, Fraction(-1)), rng.choice(uexpr.SCALES[:6]))
        elif r < 0.4:
            u2 = u1 if rng.random() < 0.5 else ("scale", u1, rng.choice(uexpr.SCALES[:6]))     # quotient collapses / does not
        elif r < 0.55 and equiv_partners:
            # quantity-EQUIVALENT partner of a different C++ type (Feet vs Inches*mag<12>(), Hertz vs 1/Seconds, N vs kg*m/s^2):
            # the quotient must still collapse to a raw number, the product with the inverse too
            u1, u2 = rng.choice(equiv_partners)
            if rng.random() < 0.5:
                u1, u2 = u2, u1
            if rng.random() < 0.3:
                u2 = ("pow", u2, Fraction(-1))              # product form
        else:
            u2 = gen_unit(rng, A, pool)
        # twin guard: all atoms of both must be twin-free
        keys = set(uexpr.atoms_of(u1) + uexpr.atoms_of(u2))
        sigs = [A.sig(k) for k in keys]
        if len(set(sigs)) != len(sigs):
            continue
        # every ordered rep pair of the 11 x 11 grid is used before any repeats (seed-drawn order)
        if not rep_grid:
            rep_grid.extend((a, b) for a in REPS for b in REPS)
            rng.shuffle(rep_grid)
        r1, r2 = rep_grid.pop()
        cases.append({"u1": u1, "u2": u2, "r1": r1, "r2": r2})
    drv = Driver()
    req = []
    for c in cases:
        s1, s2 = uexpr.sexpr(c["u1"], A), uexpr.sexpr(c["u2"], A)
        req.append(f"prod mul {c['r1']} {c['r2']} 0 {s1} ; {s2}")
        req.append(f"prod div {c['r1']} {c['r2']} 0 {s1} ; {s2}")
    ans = drv.ask(req)
    for i, c in enumerate(cases):
        c["mmul"] = kv(ans[2 * i])
        c["mdiv"] = kv(ans[2 * i + 1])
    violations = []
    configs = [("g++", "c++14"), ("clang++-14", ["c++14", "c++17", "c++20"][seed % 3])]
    nchunks = max(16, -(-len(cases) // 9))      # bounded translation units: ~9 cases per TU in every tier
    npts = 40 if tier == "quick" else 120
    inc = "\n".join(f'#include "{h}"' for h in A.headers())
    stats = {"cases": len(cases), "equivalent_partner_pool": len(equiv_partners), "configs": [], "values": 0, "raw_products": 0, "raw_quotients": 0, "div_forbidden": 0, "pow_cases": 0,
             "neg_probes": 0, "asraw_probes": 0}
    pow_cases = [(rng.choice(list(A.atoms)), rng.choice(REPS)) for _ in range(40 if tier == "quick" else 300)]
    results, presults = {}, {}
    for ci, (compiler, std) in enumerate(configs):
        cfg = f"{compiler} -std={std}"
        stats["configs"].append(cfg)
        sel = list(range(len(cases))) if ci == 0 or tier == "thorough" else sorted(rng.sample(range(len(cases)), min(len(cases), 40)))

        def build(k):
            ids = [i for i in sel if i % nchunks == k]
            pids = [j for j in range(len(pow_cases)) if j % nchunks == k] if ci == 0 else []
            if not ids and not pids:
                return k, 0, "", ""
            src = os.path.join(wd, f"c{ci}_{k}.cc")
            with open(src, "w") as f:
                f.write(PRELUDE % (inc, os.path.join(aulib.HARNESS_INC, "serialize.hh"), 12345 + seed))
                f.write("int main() {\n")
                for i in ids:
                    c = cases[i]
                    da = "true" if c["mdiv"]["allowed"] == "1" else "false"
                    f.write(f"  prod_case<UT({uexpr.cxx(c['u1'], A, 'unit')}), {CT[c['r1']]}, UT({uexpr.cxx(c['u2'], A, 'unit')}), {CT[c['r2']]}, {da}>({i}, {npts});\n")
                for j in pids:
                    key, r = pow_cases[j]
                    f.write(f"  Pows<{A.atoms[key]['cxx_type']}, {CT[r]}>::run({j}, {npts * 4});\n")
                f.write("  return 0;\n}\n")
            exe = os.path.join(wd, f"c{ci}_{k}")
            rc, out = cxx(src, exe, compiler=compiler, std=std, san=True, opt="-O1")
            if rc != 0:
                return k, rc, out, ""
            return k, 0, "", run([exe], env=UBSAN_ENV)[1]
        for k, rc, out, o in pmap(build, range(nchunks)):
            if rc != 0:
                violations.append({"what": f"product/quotient harness chunk does not compile under {cfg} (the model's `allowed` verdicts or the API changed)",
                                   "class": "build", "no_input": True, "broken": "correspondence: quantityDivAllowed / harness",
                                   "rec": {"kind": "build", "config": cfg, "errors": [l for l in out.split("\n") if "error" in l][:4]}})
                continue
            for line in o.split("\n"):
                if line.startswith("P "):
                    results.setdefault(int(line.split()[1]), {})[cfg] = kv(line)
                elif line.startswith("W "):
                    presults[int(line.split()[1])] = kv(line)
    samples = []
    evaluations = 0
    for i, c in enumerate(cases):
        d1, m1 = uexpr.sem(c["u1"], A)
        d2, m2 = uexpr.sem(c["u2"], A)
        od, om = uexpr.add(d1, d2), uexpr.add(m1, m2)
        qd, qm = uexpr.add(d1, d2, -1), uexpr.add(m1, m2, -1)
        names = (uexpr.show(c["u1"]), uexpr.show(c["u2"]), c["r1"], c["r2"])
        for cfg, r in results.get(i, {}).items():
            evaluations += int(r["n"]) * (2 if r["divkind"] != "-" else 1)
            stats["values"] += int(r["n"])
            base = {"config": cfg, "u1": names[0], "u2": names[1], "R1": names[2], "R2": names[3]}
            if len(samples) < 4:
                samples.append({"case": names, "impl": r, "model_mul": c["mmul"], "model_div": c["mdiv"]})
            want_raw = (not od and not om)
            if want_raw:
                stats["raw_products"] += 1
            if (r["mulkind"] == "raw") != want_raw:
                violations.append({"what": f"({names[0]}) * ({names[1]}) is {'a raw number' if r['mulkind'] == 'raw' else 'a Quantity'} but the units "
                                           f"{'cancel' if want_raw else 'do not cancel'} to the unitless unit", "class": "collapse-mul",
                                   "rec": dict(base, kind="collapse", op="mul")})
            elif not want_raw and (r["muldim"] != aulib.pack_str(od, "dim") or r["mulmag"] != aulib.pack_str(om, "mag")):
                violations.append({"what": f"unit of ({names[0]}) * ({names[1]}) is not the product of the units", "class": "unit-mul",
                                   "rec": dict(base, kind="unit", op="mul", impl=[r["muldim"], r["mulmag"]])})
            if r["mulrep"] != "1" or r["mulbad"] != "0":
                violations.append({"what": f"value/rep of ({names[0]})[{names[2]}] * ({names[1]})[{names[3]}] differs from the raw operator "
                                           f"({r['mulbad']} operand pairs, rep_ok={r['mulrep']}, sanitizer={r['ub']})", "class": "value-mul",
                                   "rec": dict(base, kind="value", op="mul", impl=r)})
            mm = c["mmul"]
            if (mm["raw"] == "1") != (r["mulkind"] == "raw") or (r["mulkind"] != "raw" and (mm["dim"] != r["muldim"] or mm["mag"] != r["mulmag"])):
                violations.append({"what": "model and implementation differ on a product", "class": "corr-mul", "no_input": True,
                                   "broken": "correspondence: productIsRaw / U.mul", "rec": dict(base, kind="corr", model=mm, impl=r)})
            if r["divkind"] != "-":
                want_rawq = (not qd and not qm)
                if want_rawq:
                    stats["raw_quotients"] += 1
                if (r["divkind"] == "raw") != want_rawq:
                    violations.append({"what": f"({names[0]}) / ({names[1]}): raw-number collapse is wrong", "class": "collapse-div",
                                       "rec": dict(base, kind="collapse", op="div")})
                elif not want_rawq and (r["divdim"] != aulib.pack_str(qd, "dim") or r["divmag"] != aulib.pack_str(qm, "mag")):
                    violations.append({"what": f"unit of ({names[0]}) / ({names[1]}) is not the quotient of the units", "class": "unit-div",
                                       "rec": dict(base, kind="unit", op="div", impl=[r["divdim"], r["divmag"]])})
                if r["divrep"] != "1" or r["divbad"] != "0":
                    violations.append({"what": f"value/rep of a quotient differs from the raw operator ({r['divbad']} operand pairs)", "class": "value-div",
                                       "rec": dict(base, kind="value", op="div", impl=r)})
            else:
                stats["div_forbidden"] += 1
    # --- the integer-division guard as the statement gives it: both integral and not quantity-equivalent => rejected
    neg = []
    for i, c in enumerate(cases):
        both_int = c["r1"][0] in "iu" and c["r2"][0] in "iu"
        d1, m1 = uexpr.sem(c["u1"], A)
        d2, m2 = uexpr.sem(c["u2"], A)
        want_allowed = (not both_int) or (d1 == d2 and m1 == m2)
        if (c["mdiv"]["allowed"] == "1") != want_allowed:
            violations.append({"what": "model's integer-division verdict differs from the stated rule", "class": "model-guard", "no_input": True,
                               "broken": "C14_int_div_guard", "rec": {"kind": "model", "case": i}})
        if not want_allowed:
            neg.append(i)
    rng.shuffle(neg)

    def probe(it):
        kind, i = it
        c = cases[i]
        u1c, u2c = uexpr.cxx(c["u1"], A, "unit"), uexpr.cxx(c["u2"], A, "unit")
        q1 = f"au::make_quantity<UT({u1c})>({CT[c['r1']]}{{1}})"
        q2 = f"au::make_quantity<UT({u2c})>({CT[c['r2']]}{{1}})"
        body = {"div": f"auto r = {q1} / {q2};", "unblock": f"auto r = {q1} / au::unblock_int_div({q2});",
                "sdiv": f"auto r = {CT[c['r1']]}{{1}} / {q2};", "sdiv_unblock": f"auto r = {CT[c['r1']]}{{1}} / au::unblock_int_div({q2});",
                "ipow": f"auto r = au::int_pow<-1>({q2});"}[kind]
        src = os.path.join(wd, f"neg_{kind}_{i}.cc")
        open(src, "w").write(PRELUDE % (inc, os.path.join(aulib.HARNESS_INC, "serialize.hh"), 1) + f"int main() {{ {body} (void)r; return 0; }}\n")
        rc, out = cxx(src, None, san=False, syntax_only=True)
        return kind, i, rc, out
    nneg = 10 if tier == "quick" else 60
    plist = [("div", i) for i in neg[:nneg]] + [("unblock", i) for i in neg[:nneg // 2]]
    ints = [i for i, c in enumerate(cases) if c["r2"][0] in "iu" and c["r1"][0] in "iu"]
    plist += [("sdiv", i) for i in ints[:nneg // 2]] + [("sdiv_unblock", i) for i in ints[:3]] + [("ipow", i) for i in ints[:3]]
    for kind, i, rc, out in pmap(probe, plist):
        stats["neg_probes"] += 1
        c = cases[i]
        d2, m2 = uexpr.sem(c["u2"], A)
        expect_ok = kind in ("unblock", "sdiv_unblock") or (kind == "sdiv" and not d2 and not m2)
        rec = {"kind": "probe", "probe": kind, "u1": uexpr.show(c["u1"]), "u2": uexpr.show(c["u2"]), "R1": c["r1"], "R2": c["r2"]}
        if (rc == 0) != expect_ok:
            violations.append({"what": f"`{kind}` on integral quantities {'compiles' if rc == 0 else 'is rejected'} but the guard says it must "
                                       f"{'compile' if expect_ok else 'be rejected'}", "class": "guard-" + kind, "rec": rec})
        elif rc != 0 and "Integer division forbidden" not in out and "Negative exponent" not in out:
            violations.append({"what": "guard probe rejected for an unexpected reason", "class": "guard-diag", "no_input": True, "broken": "probe allow-list",
                               "rec": dict(rec, out=out[-600:])})
    # --- as_raw_number
    ar = []
    for _ in range(12 if tier == "quick" else 60):
        key = rng.choice(list(A.atoms))
        u = ("atom", key) if rng.random() < 0.5 else ("div", ("atom", key), ("scale", ("atom", key), rng.choice(uexpr.SCALES[:6])))
        ar.append((u, rng.choice(REPS)))
    for k in ("Percent", "Unos"):
        if k in A.atoms:
            ar += [(("atom", k), "i32"), (("atom", k), "f64")]
    # every clause of the policy on its own, on dimensionless units: integer factors on both sides of each rep's overflow threshold
    # (2147 * k <= max), truncating factors, and floating reps (always accepted)
    dl = ("atom", "Unos") if "Unos" in A.atoms else None
    if dl:
        k3, k9 = uexpr.scale_of({"p2": 3, "p5": 3}), uexpr.scale_of({"p2": 9, "p5": 9})
        for sc, reps_ in ((k3, ["i8", "u8", "i16", "u16", "i32", "i64", "f32"]), (k9, ["i32", "u32", "i64", "u64", "f64"]),
                          (uexpr.scale_of({"p2": 1}), ["i8", "u8", "i16", "i32"]), (uexpr.scale_of({"p2": -1}), ["i32", "f64"]),
                          (uexpr.scale_of({"p7": 1, "p11": -1}), ["i64", "f32"])):
            for r_ in reps_:
                if r_ in CT:
                    ar.append((("scale", dl, sc), r_))
    am = drv.ask([f"asraw {r} {uexpr.sexpr(u, A)}" for u, r in ar])

    def aprobe(j):
        u, r = ar[j]
        src = os.path.join(wd, f"asraw_{j}.cc")
        open(src, "w").write(PRELUDE % (inc, os.path.join(aulib.HARNESS_INC, "serialize.hh"), 1) +
                             f"int main() {{ auto r = au::as_raw_number(au::make_quantity<UT({uexpr.cxx(u, A, 'unit')})>({CT[r]}{{1}})); (void)r; return 0; }}\n")
        rc, out = cxx(src, None, san=False, syntax_only=True)
        return j, rc, out
    for j, rc, out in pmap(aprobe, range(len(ar))):
        stats["asraw_probes"] += 1
        u, r = ar[j]
        d, m = uexpr.sem(u, A)
        from p_c06 import formula
        want = (not d) and formula(r, r, m)
        rec = {"kind": "asraw", "unit": uexpr.show(u), "R": r}
        if (rc == 0) != want:
            violations.append({"what": f"as_raw_number({uexpr.show(u)} [{r}]) {'compiles' if rc == 0 else 'is rejected'}; it must be accepted exactly for "
                                       "dimensionless, policy-safe quantities", "class": "asraw", "rec": rec})
        if (kv(am[j])["allowed"] == "1") != (rc == 0):
            violations.append({"what": "model and implementation differ on as_raw_number", "class": "corr-asraw", "no_input": True,
                               "broken": "correspondence: asRawNumberAllowed", "rec": dict(rec, model=am[j])})
    # --- powers
    for j, (key, r) in enumerate(pow_cases):
        w = presults.get(j)
        if not w:
            continue
        stats["pow_cases"] += 1
        a = A.atoms[key]
        rec = {"kind": "pow", "unit": key, "R": r, "impl": w}
        checks = [("p2", 2), ("p3", 3)] + ([("m1", -1), ("s", Fraction(1, 2)), ("c", Fraction(1, 3))] if "m1dim" in w else [])
        for tag, q in checks:
            wd_, wm_ = aulib.pack_str(uexpr.scalep(a["dim"], q), "dim"), aulib.pack_str(uexpr.scalep(a["mag"], q), "mag")
            if w[tag + "dim"] != wd_ or w[tag + "mag"] != wm_:
                violations.append({"what": f"unit of power {q} of {key} is not the power of the unit", "class": "unit-pow", "rec": dict(rec, q=str(q))})
        if w["bad"] != "0":
            violations.append({"what": f"int_pow/sqrt/cbrt of {key} [{r}] differ from the raw operator / std function on {w['bad']} values", "class": "value-pow", "rec": rec})
        if w.get("narrowed", "0") != "0":
            violations.append({"what": f"int_pow of {key} [{r}]: the result is narrowed back to the rep on {w['narrowed']} values where the raw (promoted) product does not fit it",
                               "class": "value-pow-narrowed", "rec": {"kind": "pow-narrowed", "unit": key, "R": r, "count": int(w["narrowed"])}})
    coverage = {"evaluations": evaluations + stats["neg_probes"] + stats["asraw_probes"] + stats["pow_cases"],
                "distinct_nontrivial": len(results) + len(presults),
                "rule": "case = (U1, R1, U2, R2): units from library/prefixed/scaled/compound units incl. deliberately cancelling and nearly-cancelling "
                        "partners, reps from 8 arithmetic types; 8-bit operand pairs exhaustive, otherwise boundary + random operands; "
                        "guards and as_raw_number as compile probes; powers -2..3 and roots 2,3 on 40 (unit, rep) pairs",
                "samples": samples, "distribution": stats}
    return finish(PROP, tier, seed, t0, proof, coverage, violations, ASSUME)


def replay(path):
    rec = json.load(open(path))
    print(json.dumps(rec.get("rec"), indent=1))
    return 1

"""C16 — constants convert exactly or not at all."""
import json
import os
import re
import sys
import time
from decimal import Decimal
from fractions import Fraction

sys.set_int_max_str_digits(0)
import aulib
from p_c11 import (intermediate_overflow, CT, FLT_T, FMAX, INT_T, cxx_mag, exact_info, gen_mags, parse_hexfloat, ulp_ok, FEMIN, FPREC)
from vlib import UBSAN_ENV, AU_INC, Driver, cxx, finish, kv, pmap, prove, rng_for, run, workdir, ty_hi

PROP = "C16"
ASSUME = [
    "integral types: availability and exactness are Lean theorems (C16_available_iff, C16_value_exact, on C11_integral/C03 lemmas); "
    "floating types: bit-exact correspondence with the float model and a 120-digit oracle",
    "implicit conversion to types with a CorrespondingQuantity (std::chrono) is covered by C17",
]

PRELUDE = '''#include <cstdint>
#include <cstdio>
#include <string>
#include <type_traits>
#include "au/au.hh"
#include "au/constant.hh"
#include "au/units/meters.hh"
#include "au/units/seconds.hh"
%s
#include "%s"
using VU = decltype(au::Meters{} / au::Seconds{});
template <typename T, bool Ok> struct CV { template <typename C, typename U> static void print(C, U) { printf("-"); } };
template <typename T> struct CVI { template <typename C, typename U> static void print(C c, U u) {
    auto v = c.template in<T>(u); auto w = c.template as<T>(u).in(u); au::Quantity<U, T> q = c;
    if (v != w || q.in(u) != v) { printf("MISMATCH"); return; }
    if (v < 0) printf("%%lld", (long long)v); else printf("%%llu", (unsigned long long)v); } };
template <> struct CV<int8_t, true> : CVI<int8_t> {}; template <> struct CV<uint8_t, true> : CVI<uint8_t> {};
template <> struct CV<int16_t, true> : CVI<int16_t> {}; template <> struct CV<uint16_t, true> : CVI<uint16_t> {};
template <> struct CV<int32_t, true> : CVI<int32_t> {}; template <> struct CV<uint32_t, true> : CVI<uint32_t> {};
template <> struct CV<int64_t, true> : CVI<int64_t> {}; template <> struct CV<uint64_t, true> : CVI<uint64_t> {};
template <typename T> struct CVF { template <typename C, typename U> static void print(C c, U u) {
    auto v = c.template in<T>(u); au::Quantity<U, T> q = c; if (!(q.in(u) == v)) { printf("MISMATCH"); return; } printf("%%La", (long double)v); } };
template <> struct CV<float, true> : CVF<float> {}; template <> struct CV<double, true> : CVF<double> {}; template <> struct CV<long double, true> : CVF<long double> {};
template <typename T, bool Conv, typename C, typename U> void one(const char* tn, C c, U u) {
    constexpr bool ok = C::template can_store_value_in<T>(U{});
    printf(" %%s=%%d:", tn, int(ok)); CV<T, ok && Conv>::print(c, u);
}
// Conv bits (one per type, from the model): 0 = the model predicts that the conversion itself is ill-formed although
// can_store_value_in is true (checked separately by a directed probe)
template <int B0, int B1, int B2, int B3, int B4, int B5, int B6, int B7, int B8, int B9, int B10, typename C, typename U> void row(int i, C c, U u) {
    printf("K %%d", i);
    one<int8_t, B0>("i8", c, u); one<uint8_t, B1>("u8", c, u); one<int16_t, B2>("i16", c, u); one<uint16_t, B3>("u16", c, u);
    one<int32_t, B4>("i32", c, u); one<uint32_t, B5>("u32", c, u); one<int64_t, B6>("i64", c, u); one<uint64_t, B7>("u64", c, u);
    one<float, B8>("f32", c, u); one<double, B9>("f64", c, u); one<long double, B10>("f80", c, u);
    printf("\\n");
}
'''


def library_constants():
    d = os.path.join(AU_INC, "au", "constants")
    res = []
    for f in sorted(os.listdir(d)):
        if not f.endswith(".hh") or f.endswith("_fwd.hh"):
            continue
        txt = open(os.path.join(d, f)).read()
        m = re.search(r"constexpr auto (\w+)\s*=\s*make_constant", txt)
        if m:
            res.append((m.group(1), "au/constants/" + f))
    return res


def msub(p, q):
    o = dict(p)
    for b, e in q.items():
        o[b] = o.get(b, 0) - Fraction(e)
        if o[b] == 0:
            del o[b]
    return o


def main(tier, seed):
    t0 = time.time()
    wd = workdir(PROP)
    rng = rng_for(PROP, seed)
    proof = prove(PROP)
    libc = library_constants()
    violations = []
    # magnitudes of the library constants' units (dumper)
    inc = "\n".join(f'#include "{h}"' for _, h in libc)
    src = os.path.join(wd, "dump.cc")
    with open(src, "w") as f:
        f.write(PRELUDE % (inc, os.path.join(aulib.HARNESS_INC, "serialize.hh")))
        f.write("int main() {\n")
        for name, _ in libc:
            f.write(f'  printf("{name}|%s|%s\\n", vser::dim_str<au::AssociatedUnitT<std::decay_t<decltype(au::{name})>>>().c_str(), '
                    f"vser::mag_str<au::AssociatedUnitT<std::decay_t<decltype(au::{name})>>>().c_str());\n")
        f.write("  return 0;\n}\n")
    rc, out = cxx(src, os.path.join(wd, "dump"), san=False, opt="-O0")
    if rc != 0:
        raise RuntimeError("constant dumper does not compile:\n" + out[-2000:])
    libmag = {}
    for line in run([os.path.join(wd, "dump")])[1].split("\n"):
        if "|" in line:
            n, d, m = line.split("|")
            libmag[n] = aulib.parse_pack(m)
    # cases: (constant C++ expr, target unit C++ type, exact ratio mag)
    cases = []
    mags = gen_mags(rng, 120 if tier == "quick" else 900)
    targets = [{}, {"p2": Fraction(3), "p5": Fraction(3)}, {"p2": Fraction(-3), "p5": Fraction(-3)}, {"p3": Fraction(1)}, {"p7": Fraction(-1)},
               {"pi": Fraction(1)}, {"p2": Fraction(-10)}]
    for name, _ in libc:
        for tm in rng.sample(targets, 4) + [dict(libmag[name])]:
            # target unit = constant's own unit divided by its magnitude, times tm  => ratio = libmag / tm
            cases.append({"c": f"au::{name}", "u": f"decltype(au::AssociatedUnitT<std::decay_t<decltype(au::{name})>>{{}} / {cxx_mag(libmag[name])} * {cxx_mag(tm)})",
                          "ratio": msub(libmag[name], tm), "lib": name})
    for m in mags:
        tm = rng.choice(targets)
        cases.append({"c": f"au::make_constant(VU{{}} * {cxx_mag(m)})", "u": f"decltype(VU{{}} * {cxx_mag(tm)})", "ratio": msub(m, tm), "lib": None})
    # composition probes (values unchanged, only units move): every wrapper kind x both operand orders x * and /, for a
    # seed-chosen library constant and a generated one, numbers of every rep at their limits; each probe is judged by name
    cname = rng.choice([n for n, _ in libc])
    REPV = [("int8_t", "-128"), ("int8_t", "127"), ("uint8_t", "255"), ("int16_t", "-32768"), ("uint16_t", "65535"), ("int32_t", "2147483647"),
            ("uint32_t", "4294967295u"), ("int64_t", "(-9223372036854775807ll - 1)"), ("uint64_t", "18446744073709551615ull"),
            ("float", "3.4028234664e38f"), ("float", "-0.0f"), ("double", "1.7976931348623157e308"), ("double", "4.9406564584124654e-324"),
            ("long double", "1.18973149535723176502e4932L"), ("int", "3"), ("double", "2.5")]
    probes = []
    for ci, cexpr in enumerate([f"au::{cname}", "au::make_constant(au::Meters{} * au::mag<7>() / au::mag<3>())"]):
        C = f"c{ci}"
        CU = f"CU{ci}"
        for ri, (rt, rv) in enumerate(REPV):
            x = f"static_cast<{rt}>({rv})"
            RR = f"decltype({x} * 1)" if rt in ("int8_t", "uint8_t", "int16_t", "uint16_t") else rt   # what the library's `x * 1`-style product yields is NOT assumed: compare with the rep it reports
            probes.append((f"{cexpr}: ({rt}){rv} * C keeps the number and rep", f"same_num({x} * {C}, {x}, {CU}{{}}) && std::is_same<typename decltype({x} * {C})::Rep, {rt}>::value"))
            probes.append((f"{cexpr}: C * ({rt}){rv} keeps the number and rep", f"same_num({C} * {x}, {x}, {CU}{{}}) && std::is_same<typename decltype({C} * {x})::Rep, {rt}>::value"))
            probes.append((f"{cexpr}: Quantity<Meters,{rt}>({rv}) * C keeps the number", f"same_num(au::make_quantity<au::Meters>({x}) * {C}, {x}, au::Meters{{}} * {CU}{{}})"))
            probes.append((f"{cexpr}: C * Quantity<Meters,{rt}>({rv}) keeps the number", f"same_num({C} * au::make_quantity<au::Meters>({x}), {x}, {CU}{{}} * au::Meters{{}})"))
            probes.append((f"{cexpr}: Quantity<Meters,{rt}>({rv}) / C keeps the number", f"same_num(au::make_quantity<au::Meters>({x}) / {C}, {x}, au::Meters{{}} / {CU}{{}})"))
            if rt in ("float", "double", "long double", "int"):
                probes.append((f"{cexpr}: ({rt}){rv} / C keeps the number", f"same_num({x} / {C}, {x}, au::UnitInverseT<{CU}>{{}})"))
        for nm, expr, unit in [
                ("C * C", f"{C} * {C}", f"au::UnitProductT<{CU}, {CU}>"), ("C / C", f"{C} / {C}", "au::UnitProductT<>"),
                ("C * mag<3>", f"{C} * au::mag<3>()", f"decltype({CU}{{}} * au::mag<3>())"), ("mag<3> * C", f"au::mag<3>() * {C}", f"decltype({CU}{{}} * au::mag<3>())"),
                ("C / mag<5>", f"{C} / au::mag<5>()", f"decltype({CU}{{}} / au::mag<5>())"), ("mag<5> / C", f"au::mag<5>() / {C}", f"decltype(au::UnitInverseT<{CU}>{{}} * au::mag<5>())"),
                ("pow<2>(C)", f"pow<2>({C})", f"au::UnitPowerT<{CU}, 2>"), ("pow<-1>(C)", f"pow<-1>({C})", f"au::UnitInverseT<{CU}>"),
                ("root<2>(C)", f"root<2>({C})", f"au::UnitPowerT<{CU}, 1, 2>"),
                ("C * make_constant(s)", f"{C} * au::make_constant(au::Seconds{{}})", f"au::UnitProductT<{CU}, au::Seconds>"),
                ("make_constant(s) / C", f"au::make_constant(au::Seconds{{}}) / {C}", f"au::UnitQuotientT<au::Seconds, {CU}>"),
                ("C * meter (singular)", f"{C} * au::meter", f"au::UnitProductT<{CU}, au::Meters>"), ("meter * C", f"au::meter * {C}", f"au::UnitProductT<au::Meters, {CU}>"),
                ("C / second (singular)", f"{C} / au::second", f"au::UnitQuotientT<{CU}, au::Seconds>"), ("second / C", f"au::second / {C}", f"au::UnitQuotientT<au::Seconds, {CU}>")]:
            probes.append((f"{cexpr}: unit of {nm}", f"std::is_same<UT({expr}), {unit}>::value"))
        for nm, expr, unit in [("C * meters (maker)", f"({C} * au::meters)", f"{CU}{{}} * au::Meters{{}}"), ("meters * C", f"(au::meters * {C})", f"au::Meters{{}} * {CU}{{}}"),
                               ("seconds / C", f"(au::seconds / {C})", f"au::Seconds{{}} / {CU}{{}}"), ("C / seconds", f"({C} / au::seconds)", f"{CU}{{}} / au::Seconds{{}}")]:
            for rt, rv in (("uint8_t", "255"), ("int64_t", "9223372036854775807ll"), ("double", "-0.0")):
                x = f"static_cast<{rt}>({rv})"
                probes.append((f"{cexpr}: {nm} applied to ({rt}){rv} keeps the number", f"same_num({expr}({x}), {x}, {unit})"))
    compose_src = PRELUDE % (inc, os.path.join(aulib.HARNESS_INC, "serialize.hh")) + '''
#include <cstring>
#include "au/units/meters.hh"
#include "au/units/seconds.hh"
#define UT(...) au::AssociatedUnitT<std::decay_t<decltype(__VA_ARGS__)>>
using au::pow; using au::root;
// the stored number of q (read in the expected unit, which must be quantity-equivalent to q's unit) is bit-identical to x
template <typename Q, typename X, typename U> bool same_num(Q q, X x, U u) {
    static_assert(au::AreUnitsQuantityEquivalent<typename Q::Unit, UT(u)>::value, "composition produced another unit");
    auto v = q.in(typename Q::Unit{});
    if (!std::is_same<decltype(v), X>::value) return false;
    return std::memcmp(&v, &x, std::is_same<X, long double>::value ? 10 : sizeof(X)) == 0;   // x87 long double: 10 value bytes + padding
}
int main() {
''' + f"    constexpr auto c0 = au::{cname}; using CU0 = UT(c0);\n    constexpr auto c1 = au::make_constant(au::Meters{{}} * au::mag<7>() / au::mag<3>()); using CU1 = UT(c1);\n" + \
        "".join(f'    printf("K {k} %d\\n", int({code}));\n' for k, (_, code) in enumerate(probes)) + "    return 0;\n}\n"
    cp = os.path.join(wd, "compose.cc")
    open(cp, "w").write(compose_src)
    rc, out = cxx(cp, os.path.join(wd, "compose"), san=True, opt="-O0")
    stats_compose = {"probes": len(probes), "constant": cname}
    if rc != 0:
        violations.append({"what": "constant composition program does not compile (a wrapper operation with a constant is missing, or produces another unit)",
                           "class": "compose-build", "no_input": True,
                           "broken": "harness / wrapper_operations mix-ins", "rec": {"kind": "build", "errors": [l for l in out.split("\n") if "error" in l][:4]}})
    else:
        o = run([os.path.join(wd, "compose")], env=UBSAN_ENV)[1]
        got = {int(l.split()[1]): l.split()[2] for l in o.split("\n") if l.startswith("K ")}
        for k, (nm, code) in enumerate(probes):
            if got.get(k) != "1":
                violations.append({"what": f"composition with a constant changed the stored number / rep: {nm}", "class": "compose",
                                   "rec": {"kind": "compose", "probe": nm, "code": code}})
    drv = Driver()
    req = []
    for c in cases:
        ms = aulib.pack_str(c["ratio"], "mag")
        for t in INT_T + FLT_T:
            req.append(f"constin {t} {ms}")
    ans = drv.ask(req)
    convbits = []
    stuck = []
    for i in range(len(cases)):
        bits = []
        for j, t in enumerate(INT_T + FLT_T):
            mo = kv(ans[i * 11 + j])
            stuck_cell = mo["can"] == "1" and mo["conv"] == "0"
            bits.append("0" if stuck_cell else "1")
            if stuck_cell:
                stuck.append((i, t))
        convbits.append(", ".join(bits))
    configs = [("g++", "c++14"), ("clang++-14", ["c++14", "c++17", "c++20"][seed % 3])]
    nchunks = max(16, -(-len(cases) // 10))      # bounded translation units: ~10 cases per TU in every tier
    results = {}
    stats = {"constants_library": len(libc), "cases": len(cases), "composition_probes": stats_compose, "configs": [], "available_cells": 0, "unavailable_cells": 0, "neg_probes": 0,
             "float_cells_checked": 0}
    for ci, (compiler, std) in enumerate(configs):
        cfg = f"{compiler} -std={std}"
        stats["configs"].append(cfg)
        sel = list(range(len(cases))) if ci == 0 or tier == "thorough" else sorted(rng.sample(range(len(cases)), min(len(cases), 50)))

        def build(k):
            ids = [i for i in sel if i % nchunks == k]
            if not ids:
                return ids, 0, "", ""
            s2 = os.path.join(wd, f"k{ci}_{k}.cc")
            with open(s2, "w") as f:
                f.write(PRELUDE % (inc, os.path.join(aulib.HARNESS_INC, "serialize.hh")))
                f.write("int main() {\n")
                for i in ids:
                    f.write(f"  row<{convbits[i]}>({i}, {cases[i]['c']}, {cases[i]['u']}{{}});\n")
                f.write("  return 0;\n}\n")
            exe = os.path.join(wd, f"k{ci}_{k}")
            extra = ["-fconstexpr-ops-limit=1000000000", "-fconstexpr-loop-limit=10000000"] if compiler == "g++" else ["-fconstexpr-steps=1000000000"]
            rc2, out2 = cxx(s2, exe, compiler=compiler, std=std, san=False, opt="-O0", extra=extra)
            if rc2 != 0:
                return ids, rc2, out2, ""
            return ids, 0, "", run([exe])[1]
        for ids, rc2, out2, o in pmap(build, range(nchunks)):
            if rc2 != 0:
                violations.append({"what": f"constant harness chunk does not compile under {cfg}", "class": "build", "no_input": True,
                                   "broken": "correspondence harness (can_store_value_in gates in<T>/as<T>/implicit conversion)",
                                   "rec": {"kind": "build", "config": cfg, "errors": [l for l in out2.split("\n") if "error" in l][:4]}})
                continue
            for line in o.split("\n"):
                if line.startswith("K "):
                    results.setdefault(int(line.split()[1]), {})[cfg] = kv(line)
    samples = []
    evaluations = 0
    neg = []
    for i, c in enumerate(cases):
        blk = ans[i * 11:(i + 1) * 11]
        is_int, is_rat, val, ln = exact_info(c["ratio"])
        ms = aulib.pack_str(c["ratio"], "mag")
        for cfg, r in results.get(i, {}).items():
            for j, t in enumerate(INT_T + FLT_T):
                evaluations += 1
                can, txt = r[t].split(":")
                mo = kv(blk[j])
                rec = {"config": cfg, "constant": c["c"], "unit": c["u"], "ratio": ms, "T": t, "impl": r[t], "model": blk[j]}
                if txt == "MISMATCH":
                    violations.append({"what": f"in<{CT[t]}>, as<{CT[t]}> and the implicit conversion of {c['c']} disagree", "class": "api-mismatch",
                                       "rec": dict(rec, kind="oracle", observable="api")})
                    continue
                stats["available_cells" if can == "1" else "unavailable_cells"] += 1
                if can == "0":
                    neg.append((i, t))
                same = (can == mo["can"])
                if same and can == "1" and mo["conv"] == "1":
                    if t in INT_T:
                        same = txt == mo["val"]
                    else:
                        iv = parse_hexfloat(txt)
                        n, d = mo["val"].split("/") if "/" in mo["val"] else (mo["val"], "1")
                        same = (not isinstance(iv, str)) and mo["val"] not in ("inf", "-inf", "nan") and iv == Fraction(int(n), int(d))
                if not same:
                    violations.append({"what": f"model and implementation differ on {c['c']}.in<{CT[t]}>({c['u']})", "class": "corr", "no_input": True,
                                       "broken": "correspondence: constantIn", "rec": dict(rec, kind="corr")})
                if t in INT_T:
                    fits = is_int and val is not None and val <= ty_hi(t)
                    if (can == "1") != fits:
                        violations.append({"what": f"can_store_value_in<{CT[t]}> = {can} for ratio {ms}, but the exact ratio "
                                                   f"{'is' if fits else 'is not'} an in-range integer", "class": f"avail-{t}", "rec": dict(rec, kind="oracle", observable="available")})
                    elif can == "1" and int(txt) != val:
                        violations.append({"what": f"{c['c']}.in<{CT[t]}> = {txt}, exact ratio {val}", "class": f"value-{t}", "rec": dict(rec, kind="oracle", observable="value")})
                else:
                    lnmax = Decimal(FMAX[t].numerator).ln() - Decimal(FMAX[t].denominator).ln()
                    lnlow = Decimal(2).ln() * (FEMIN[t] - FPREC[t] + 1 - 1)
                    margin = Decimal("1e-12")
                    fits = True if lnlow + margin < ln < lnmax - margin else (False if (ln > lnmax + margin or ln < lnlow - margin) else None)
                    if fits is not None and (can == "1") != fits:
                        violations.append({"what": f"can_store_value_in<{CT[t]}> = {can} for ratio {ms} but the exact ratio is "
                                                   f"{'within' if fits else 'outside'} the type's range", "class": f"avail-{t}",
                                           "rec": dict(rec, kind="oracle", observable="representable", inverse_overflows=bool(-ln > lnmax), intermediate_overflow=intermediate_overflow(c["ratio"]))})
                    elif can == "1" and mo["conv"] == "1":
                        stats["float_cells_checked"] += 1
                        iv = parse_hexfloat(txt)
                        if isinstance(iv, str) or iv <= 0 or not ulp_ok(iv, ln, t):
                            violations.append({"what": f"{c['c']}.in<{CT[t]}>({c['u']}) = {txt}: not within a few ulps of the exact ratio", "class": f"value-{t}",
                                               "rec": dict(rec, kind="oracle", observable="value", zero=False,
                                                           maxexp=max([abs(int(Fraction(e))) for e in c["ratio"].values()] or [0]))})
            if len(samples) < 5 and c["lib"]:
                samples.append({"constant": c["c"], "ratio": ms, "impl": r})
    # directed probes: the model says can_store_value_in is true but the conversion is ill-formed (1 / get_value<T>(k) with k > max(T))
    def sprobe(it):
        i, t = it
        c = cases[i]
        s2 = os.path.join(wd, f"stuck_{i}_{t}.cc")
        open(s2, "w").write(PRELUDE % (inc, os.path.join(aulib.HARNESS_INC, "serialize.hh")) +
                            f"int main() {{ static_assert(std::decay_t<decltype({c['c']})>::can_store_value_in<{CT[t]}>({c['u']}{{}}), \"\"); "
                            f"auto v = ({c['c']}).in<{CT[t]}>({c['u']}{{}}); (void)v; return 0; }}\n")
        rc2, out2 = cxx(s2, None, san=False, syntax_only=True, extra=["-fconstexpr-ops-limit=1000000000"])
        return it, rc2, out2
    stats["stuck_cells"] = len(stuck)
    for (i, t), rc2, out2 in pmap(sprobe, stuck[:12]):
        ms = aulib.pack_str(cases[i]["ratio"], "mag")
        if rc2 != 0:
            violations.append({"what": f"can_store_value_in<{CT[t]}> is true for ratio {ms} but in<{CT[t]}> is ill-formed "
                                       "(the conversion divides by get_value<T>(1/ratio), which does not fit T)", "class": f"stuck-{t}",
                               "rec": {"kind": "oracle", "observable": "stuck", "T": t, "ratio": ms, "reciprocal_overflows": True,
                                       "errors": [l for l in out2.split("\n") if "error" in l][:2]}})
        else:
            violations.append({"what": "model predicts an ill-formed conversion that compiles", "class": "corr-stuck", "no_input": True,
                               "broken": "correspondence: constantInFlt", "rec": {"kind": "corr", "T": t, "ratio": ms}})
    # negative probes: where can_store_value_in is false, in<T>, as<T> and the implicit conversion must be ill-formed
    rng.shuffle(neg)

    def probe(it):
        i, t, kind = it
        c = cases[i]
        body = {"in": f"auto v = ({c['c']}).in<{CT[t]}>({c['u']}{{}}); (void)v;",
                "as": f"auto v = ({c['c']}).as<{CT[t]}>({c['u']}{{}}); (void)v;",
                "implicit": f"au::Quantity<{c['u']}, {CT[t]}> q = {c['c']}; (void)q;"}[kind]
        s2 = os.path.join(wd, f"neg_{kind}_{i}_{t}.cc")
        open(s2, "w").write(PRELUDE % (inc, os.path.join(aulib.HARNESS_INC, "serialize.hh")) + f"int main() {{ {body} return 0; }}\n")
        rc2, out2 = cxx(s2, None, san=False, syntax_only=True, extra=["-fconstexpr-ops-limit=1000000000"])
        return it, rc2, out2
    nn = 8 if tier == "quick" else 40
    plist = [(i, t, k) for (i, t) in neg[:nn] for k in ("in", "as", "implicit")]
    for (i, t, kind), rc2, out2 in pmap(probe, plist):
        stats["neg_probes"] += 1
        if rc2 == 0:
            violations.append({"what": f"{kind}<{CT[t]}> of {cases[i]['c']} compiles although can_store_value_in is false", "class": "neg-" + kind,
                               "rec": {"kind": "oracle", "observable": "compile", "api": kind, "T": t, "ratio": aulib.pack_str(cases[i]["ratio"], "mag")}})
        elif "Cannot represent constant" not in out2:
            violations.append({"what": "negative probe rejected for an unexpected reason", "class": "neg-diag", "no_input": True, "broken": "probe allow-list",
                               "rec": {"kind": "probe", "out": out2[-800:]}})
    coverage = {"evaluations": evaluations + stats["neg_probes"], "distinct_nontrivial": len(results) * 11,
                "rule": "case = (constant, target unit, T): the library's 9 constants x scaled target units + generated constants "
                        "(make_constant of m/s scaled by integer, rational, huge-prime, pi and root magnitudes) x 11 types; availability by "
                        "can_store_value_in, values through in<T>, as<T> and the implicit conversion (must agree), negative probes for all three",
                "samples": samples, "distribution": stats}
    return finish(PROP, tier, seed, t0, proof, coverage, violations, ASSUME)


def replay(path):
    rec = json.load(open(path))
    print(json.dumps(rec.get("rec"), indent=1))
    return 1

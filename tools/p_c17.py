"""C17 — std::chrono durations round-trip through quantities unchanged; mixed duration/quantity
operations agree with chrono's own; a duration is implicitly accepted exactly when its
corresponding quantity is.

Correspondence between the Lean model (AuModel.Chrono, through `audriver`) and the real headers
(public API: as_quantity, as_chrono_duration, the implicit constructor / conversion operator, the
QLike mixed operators, std::is_convertible), plus the statement-level oracle evaluated on every
explored case:
  * round trip: bit patterns of the counts, `is_same` of reps/periods computed inside C++, the unit
    ratio against the exact Fraction n/d;
  * mixed operations: std::chrono's own result computed in the same harness, and an independent
    exact recomputation (big integers / Fractions + round-to-nearest-even) of what chrono's
    common_type arithmetic denotes, which also decides "chrono's computation does not overflow";
  * acceptance: the compiler's verdict on the corresponding quantity, and the documented formula
    (threshold 2147) evaluated in Python.
"""
import json
import math
import os
import time
from fractions import Fraction

import shutil

from vlib import (AU_INC, DRIVER, REPO, SAN_CLANG, SAN_GCC, UBSAN_ENV, LakeLock, cxx, finish, kv, lake_build, pmap, prove,
                  rng_for, run, workdir)

PROP = "C17"
ASSUME = [
    "reps int32_t/int64_t/float/double; same-width integer types (long / long long) are identified",
    "periods are positive std::ratio with prime factors < 2^24 and terms small enough that chrono's own "
    "compile-time ratio arithmetic does not overflow intmax_t (otherwise chrono itself is ill-formed)",
    "floating clauses: C17_mixed_ops_agree holds for every rounding function satisfying RoundingOK, and RoundingOK is "
    "proved for the model's rne (IEEE round-to-nearest-even with gradual underflow, rne_roundingOK); that the hardware "
    "and the compilers' constant evaluation round like rne is checked by this correspondence (bit-exact comparison of "
    "float results), not proved",
    "non-finite float counts (inf, NaN) are covered by the round-trip oracle only (bit patterns), not by the model",
    "pairs whose mixed operation Au rejects at compile time (documented implicit-conversion policy: integral common "
    "rep and a scale factor k with 2147*k > max) have no Au answer to compare; the set is proved to be exactly that "
    "(C17_mixed_compiles_iff), confirmed ill-formed by negative probes and counted in the evidence",
    "magnitudes with a prime base >= 2^63 are outside the model (finding F1, property C11)",
]

# Real defects of /repo that are reproduced by this check and awaiting a decision by the coordinator.
# Narrow structural matches only; see the final report.  (Empty: none found.)
PENDING_FINDINGS = []      # findings live in /verif/known_findings.json (F22 fixed; F23, F24, F25 listed)

REPS = ["i32", "i64", "f32", "f64"]
CTYPE = {"i32": "int32_t", "i64": "int64_t", "f32": "float", "f64": "double"}
INT_RANGE = {"i32": (-(1 << 31), (1 << 31) - 1), "i64": (-(1 << 63), (1 << 63) - 1)}
FMT = {"f32": (24, 127), "f64": (53, 1023)}
OPS = ["eq", "ne", "lt", "le", "gt", "ge", "add", "sub"]
NAMED = {(1, 1000000000): "Nano<Seconds>", (1, 1000000): "Micro<Seconds>", (1, 1000): "Milli<Seconds>",
         (1, 1): "Seconds", (60, 1): "Minutes", (3600, 1): "Hours"}
THRESH = 2147


class PrivateDriver:
    """The compiled Lean model, run from a private copy: `lake build` by a concurrent check relinks
    .lake/build/bin/audriver, so the binary is copied (under the lake lock) before it is used."""

    def __init__(self, wd):
        self.exe = os.path.join(wd, "audriver")
        for attempt in range(5):
            with LakeLock():
                if os.path.exists(DRIVER):
                    shutil.copy2(DRIVER, self.exe)
                    break
            ok, out = lake_build(["audriver"])
            if not ok:
                time.sleep(20)
        else:
            raise RuntimeError("audriver is not available")

    def ask(self, lines, chunk=4000):
        if not lines:
            return []

        def work(part):
            rc, out, err = run([self.exe], inp="\n".join(part) + "\n", timeout=3600)
            res = out.split("\n")
            if res and res[-1] == "":
                res.pop()
            if rc != 0 or len(res) != len(part):
                raise RuntimeError(f"audriver: rc={rc}, {len(res)} answers for {len(part)} requests\n{err[-2000:]}")
            return res
        parts = [lines[i:i + chunk] for i in range(0, len(lines), chunk)]
        out = []
        for r in pmap(work, parts):
            out += r
        return out


# ----------------------------------------------------------------------------------------------
# exact arithmetic helpers (independent of the Lean model)
# ----------------------------------------------------------------------------------------------

def common_rep(a, b):
    for r in ("f64", "f32", "i64"):
        if a == r or b == r:
            return r
    return "i32"


def is_int(r):
    return r[0] == "i"


def rne(rep, q):
    """Round the Fraction q to binary32/binary64, ties to even, gradual underflow; None if the result
    is not finite."""
    prec, emax = FMT[rep]
    if q == 0:
        return Fraction(0)
    a = abs(q)
    n, d = a.numerator, a.denominator
    e = n.bit_length() - d.bit_length()
    if Fraction(2) ** e > a:
        e -= 1
    assert Fraction(2) ** e <= a < Fraction(2) ** (e + 1)
    e = max(e, 1 - emax)
    quantum = Fraction(2) ** (e - (prec - 1))
    m = a / quantum
    fl = m.numerator // m.denominator
    fr = m - fl
    if fr > Fraction(1, 2) or (fr == Fraction(1, 2) and fl % 2 == 1):
        fl += 1
    r = fl * quantum
    if r >= Fraction(2) ** (emax + 1):
        return None
    return -r if q < 0 else r


def norm(p):
    g = math.gcd(p[0], p[1])
    return (p[0] // g, p[1] // g)


def common_period(p1, p2):
    """The greatest rational that divides both periods an integer number of times."""
    (n1, d1), (n2, d2) = norm(p1), norm(p2)
    g = Fraction(math.gcd(n1 * d2, n2 * d1), d1 * d2)
    return g


def scale_factors(p1, p2):
    g = common_period(p1, p2)
    k1, k2 = Fraction(*p1) / g, Fraction(*p2) / g
    assert k1.denominator == 1 and k2.denominator == 1
    return int(k1), int(k2), g


def au_policy_oracle(r1, p1, r2, p2):
    """Documented policy: for an integral common rep both scale factors k must satisfy 2147*k <= max."""
    cr = common_rep(r1, r2)
    if not is_int(cr):
        return True
    k1, k2, _ = scale_factors(p1, p2)
    hi = INT_RANGE[cr][1]
    return all(k == 1 or THRESH * k <= hi for k in (k1, k2))


def oracle_ops(r1, p1, x1, r2, p2, x2):
    """What the eight chrono operations denote when no step overflows (exact arithmetic, rounding only
    where the common rep is a floating type).  Returns (clean_scale, {op: value | None}); a value is
    None when that operation's own computation leaves the common rep's range."""
    cr = common_rep(r1, r2)
    k1, k2, _ = scale_factors(p1, p2)
    res = {op: None for op in OPS}
    if is_int(cr):
        lo, hi = INT_RANGE[cr]
        s1, s2 = x1 * k1, x2 * k2
        if not (lo <= s1 <= hi and lo <= s2 <= hi):
            return False, res
    else:
        def conv(r, x):
            return x if not is_int(r) else rne(cr, Fraction(x))

        def scale(a, k):
            if a is None:
                return None
            if k == 1:
                return a
            kk = rne(cr, Fraction(k))
            return None if kk is None else rne(cr, a * kk)
        s1, s2 = scale(conv(r1, x1), k1), scale(conv(r2, x2), k2)
        if s1 is None or s2 is None:
            return False, res
    res.update({"eq": s1 == s2, "ne": s1 != s2, "lt": s1 < s2, "le": s1 <= s2, "gt": s1 > s2, "ge": s1 >= s2})
    if is_int(cr):
        for op, v in (("add", s1 + s2), ("sub", s1 - s2)):
            res[op] = v if lo <= v <= hi else None
    else:
        res["add"] = rne(cr, s1 + s2)
        res["sub"] = rne(cr, s1 - s2)
    return True, res


def accept_oracle(tr, tp, sr, sp):
    """Documented implicit-conversion rule for Quantity<s*tp, tr> from the quantity corresponding to
    duration<sr, sp>.  (Before the fix of finding F2 the trait was ill-formed for an integer factor
    beyond the target rep; now it is simply false.)"""
    ratio = Fraction(*sp) / Fraction(*tp)
    if not is_int(tr):
        return True
    if ratio == 1:
        return is_int(sr)              # identical rep, or the integer-promotion carve-out
    if not is_int(sr):
        return False
    if ratio.denominator != 1:
        return False
    k = ratio.numerator
    hi = INT_RANGE[tr][1]
    return THRESH * k <= hi


def chrono_accept_oracle(tr, tp, sr, sp):
    ratio = Fraction(*sp) / Fraction(*tp)
    return (not is_int(tr)) or (is_int(sr) and ratio.denominator == 1)


# ----------------------------------------------------------------------------------------------
# generators
# ----------------------------------------------------------------------------------------------

SMALL_PRIMES = [p for p in range(2, 542) if all(p % q for q in range(2, int(p ** 0.5) + 1))]


def is_prime(n):
    if n < 2:
        return False
    for p in SMALL_PRIMES:
        if n % p == 0:
            return n == p
    d, s = n - 1, 0
    while d % 2 == 0:
        d //= 2
        s += 1
    for a in (2, 3, 5, 7, 11, 13, 17, 19, 23, 29, 31, 37):
        x = pow(a, d, n)
        if x in (1, n - 1):
            continue
        for _ in range(s - 1):
            x = x * x % n
            if x == n - 1:
                break
        else:
            return False
    return True


def cheap(v):
    """Compile-time factorisation stays in the trial-division path of find_prime_factor: after the
    first 100 primes the cofactor is 1 or a prime below 2^24 (also keeps the Lean model's trial
    division short)."""
    for p in SMALL_PRIMES:
        while v % p == 0:
            v //= p
    return v == 1 or (v < (1 << 24) and is_prime(v))


BASE_PERIODS = [(1, 1000000000), (1, 1000000), (1, 1000), (1, 1), (60, 1), (3600, 1),
                (1, 60), (1001, 30000), (86400, 1)]


def gen_periods(rng, tier):
    n_extra = 1 if tier == "quick" else 10
    out = list(BASE_PERIODS)
    # non-reduced spellings (std::ratio normalises; specialisation matching does not)
    out.append(rng.choice([(2, 4), (120, 2), (1000, 1000000), (7200, 2), (3, 180), (10, 10)]))
    # boundaries of the overflow-threshold policy relative to seconds: 2147 * k <= max(int32)
    kb = (1 << 31) // THRESH                      # 1000225: largest k that passes for int32
    cands = rng.choice([[(kb, 1), (kb + 1, 1)], [(1, kb), (1, kb + 1)]])     # both sides of the threshold, always
    out += [c for c in cands if cheap(c[0]) and cheap(c[1])]
    # the same boundary for int64, realised against nanoseconds: k = A * 10^9 with max(int64)/k == 2147 exactly (largest
    # cheap A with 2147*k <= max < 2148*k) and the smallest cheap A' above the threshold (2147*k' > max >= 2146*k')
    k64 = ((1 << 63) - 1) // THRESH
    a_acc = next(a for a in range(k64 // 10 ** 9, ((1 << 63) - 1) // (THRESH + 1) // 10 ** 9, -1) if cheap(a))
    a_rej = next(a for a in range(k64 // 10 ** 9 + 1, ((1 << 63) - 1) // (THRESH - 1) // 10 ** 9) if cheap(a))
    assert THRESH * a_acc * 10 ** 9 <= (1 << 63) - 1 < (THRESH + 1) * a_acc * 10 ** 9
    assert (THRESH - 1) * a_rej * 10 ** 9 <= (1 << 63) - 1 < THRESH * a_rej * 10 ** 9
    out += [(a_acc, 1), (a_rej, 1)]
    pool = [(1, 10), (1, 100), (10, 1), (1000, 1), (604800, 1), (1, 24), (1, 30), (1, 25), (1, 48000), (1, 44100),
            (1, 90000), (125, 3), (1, 1024), (1, 65536), (1024, 1), (3, 2), (2, 3), (7, 1), (1, 7), (31556952, 1),
            (1, 1 << 20), (1, 1 << 30), (1000000, 1), (1, 29970), (1001, 60000), (1, 705600000), (9, 5), (12, 25)]
    while len(out) < len(BASE_PERIODS) + 5 + n_extra:
        r = rng.random()
        if r < 0.5:
            c = rng.choice(pool)
        elif r < 0.8:
            c = (rng.choice([1, 1, 2, 3, 5, 7, 12, 60, 1001]) * rng.choice([1, 1, 10, 100, 1000]),
                 rng.choice([1, 1, 2, 3, 5, 7, 30, 60, 1000]) * rng.choice([1, 1, 10, 1000, 30000]))
        else:
            c = (rng.randrange(1, 5000), rng.randrange(1, 5000))
        if c not in out and cheap(c[0]) and cheap(c[1]):
            out.append(c)
    # keep chrono's and Au's compile-time arithmetic inside intmax_t for every ordered pair
    ok = []
    for p in out:
        if all(max(p[0] * q[1], p[1] * q[0], q[0] * p[1], p[0] * q[0], p[1] * q[1]) < (1 << 62) for q in ok + [p]):
            ok.append(p)
    return ok


def frac_of_float(x):
    return Fraction(x)


def float_candidates(rng, rep, extra=()):
    prec, emax = FMT[rep]
    vals = [Fraction(0), Fraction(1), Fraction(-1), Fraction(3, 2), Fraction(-5, 4), Fraction(1, 3), Fraction(1, 10),
            Fraction(2) ** prec, Fraction(2) ** prec + 2, Fraction(2) ** prec - 1, Fraction(2) ** (prec - 1) + 1,
            Fraction(123456789), Fraction(10) ** 9, Fraction(2) ** (1 - emax), Fraction(2) ** (2 - emax - prec),
            (2 - Fraction(2) ** (1 - prec)) * Fraction(2) ** emax, -(2 - Fraction(2) ** (1 - prec)) * Fraction(2) ** emax,
            Fraction(2) ** (emax - 3), Fraction(10) ** 30, Fraction(7, 1000)]
    vals += list(extra)
    for _ in range(8):
        e = rng.randrange(-40, 60)
        vals.append(Fraction(rng.randrange(-(1 << 30), 1 << 30), 1 << 20) * Fraction(2) ** e)
        vals.append(Fraction(rng.randrange(-100000, 100000)))
    out = []
    for v in vals:
        r = rne(rep, v)
        if r is not None:
            out.append(r)
    return out


def clampi(rep, v):
    lo, hi = INT_RANGE[rep]
    return min(hi, max(lo, v))


def gen_value_pairs(rng, r1, p1, r2, p2, count):
    """Value pairs for one pair instance: guard boundaries of the model (scaled value at the edge of
    the common rep, equal / adjacent scaled values, sums at the edge) + random."""
    cr = common_rep(r1, r2)
    k1, k2, _ = scale_factors(p1, p2)
    pairs = []

    def val(rep, v):
        """Coerce a mathematical target value into a value of rep."""
        if is_int(rep):
            return clampi(rep, int(v))
        r = rne(rep, Fraction(v))
        return r if r is not None else Fraction(0)

    if is_int(cr):
        lo, hi = INT_RANGE[cr]
        b1 = [hi // k1, hi // k1 + 1, lo // k1, -((-lo) // k1) - 1, hi // k1 - 1]
        b2 = [hi // k2, hi // k2 + 1, lo // k2, -((-lo) // k2) - 1, hi // k2 - 1]
        for a in b1:
            pairs.append((val(r1, a), val(r2, rng.choice([0, 1, -1, 7]))))
        for b in b2:
            pairs.append((val(r1, rng.choice([0, 1, -1, 7])), val(r2, b)))
        # equal / adjacent scaled values: x1*k1 = x2*k2 = m*lcm
        l = k1 * k2 // math.gcd(k1, k2)
        for _ in range(4):
            m = rng.randrange(-50, 50) if rng.random() < 0.6 else rng.randrange(lo // l, hi // l + 1)
            a, b = m * l // k1, m * l // k2
            pairs.append((val(r1, a), val(r2, b)))
            pairs.append((val(r1, a + rng.choice([-1, 1])), val(r2, b)))
            pairs.append((val(r1, a), val(r2, b + rng.choice([-1, 1]))))
        # sums / differences at the edge of the common rep
        for edge in (hi, lo):
            for dl in (-1, 0, 1):
                a = rng.randrange(lo // (2 * k1), hi // (2 * k1) + 1)
                rest = edge + dl - a * k1
                pairs.append((val(r1, a), val(r2, rest // k2)))
                pairs.append((val(r1, a), val(r2, -(rest // k2))))
        for rr in (r1, r2):
            pass
        pairs += [(val(r1, INT_RANGE[r1][1]), val(r2, 0)), (val(r1, INT_RANGE[r1][0]), val(r2, 0)),
                  (val(r1, 0), val(r2, INT_RANGE[r2][1])), (val(r1, 0), val(r2, INT_RANGE[r2][0])),
                  (val(r1, INT_RANGE[r1][0]), val(r2, INT_RANGE[r2][0])), (val(r1, 0), val(r2, 0))]
    else:
        c1 = float_candidates(rng, r1) if not is_int(r1) else None
        c2 = float_candidates(rng, r2) if not is_int(r2) else None

        def pick(rep, c):
            if c is not None:
                return rng.choice(c)
            lo, hi = INT_RANGE[rep]
            r = rng.random()
            if r < 0.3:
                return rng.choice([0, 1, -1, hi, lo, hi - 1, (1 << 24) + 1, (1 << 53) + 1 if hi > (1 << 53) else 12345,
                                   -(1 << 24) - 1])
            if r < 0.7:
                return rng.randrange(-100000, 100000)
            return rng.randrange(lo, hi + 1)
        for _ in range(count // 2):
            pairs.append((val(r1, pick(r1, c1)), val(r2, pick(r2, c2))))
        # equal scaled values: x1*k1 == x2*k2 with small integers (exact in every format)
        l = k1 * k2 // math.gcd(k1, k2)
        for _ in range(4):
            m = rng.randrange(-30, 30)
            a, b = Fraction(m * l, k1), Fraction(m * l, k2)
            if l < (1 << 20):
                pairs.append((val(r1, a), val(r2, b)))
                pairs.append((val(r1, a + 1), val(r2, b)))
        # overflow to infinity of the scaled value / of the sum
        prec, emax = FMT[cr]
        big = (2 - Fraction(2) ** (1 - prec)) * Fraction(2) ** emax
        for a in (big / k1, big / k1 * 2, big / 2):
            pairs.append((val(r1, a), val(r2, rng.choice([0, 1]))))
        for b in (big / k2, -big / k2, big / 2):
            pairs.append((val(r1, rng.choice([0, 1])), val(r2, b)))
        pairs.append((val(r1, big / k1 / 2 if k1 > 1 else big / 2), val(r2, big / k2 / 2 if k2 > 1 else big / 2)))
    sampled = pairs
    pairs = []
    while len(sampled) + len(pairs) < count:
        def rnd(rep):
            if is_int(rep):
                lo, hi = INT_RANGE[rep]
                r = rng.random()
                if r < 0.5:
                    return rng.randrange(-1000, 1000)
                if r < 0.8:
                    b = rng.randrange(1, 63 if rep == "i64" else 31)
                    return clampi(rep, rng.randrange(-(1 << b), 1 << b))
                return rng.randrange(lo, hi + 1)
            return rng.choice(float_candidates(rng, rep))
        pairs.append((rnd(r1), rnd(r2)))
    sampled = sampled + pairs
    rng.shuffle(sampled)

    # ---- permanent directed list: generated for EVERY pair instance in every run and never trimmed ----
    def lim(rep):
        if is_int(rep):
            return INT_RANGE[rep]
        prec, emax = FMT[rep]
        big = (2 - Fraction(2) ** (1 - prec)) * Fraction(2) ** emax
        return (-big, big)
    (lo1, hi1), (lo2, hi2) = lim(r1), lim(r2)
    directed = [(0, 0), (1, 1), (-1, 1), (1, -1), (-1, -1), (lo1, 0), (hi1, 0), (0, lo2), (0, hi2), (hi1, hi2), (lo1, lo2),
                (hi1, lo2), (lo1, hi2), (hi1, 1), (1, hi2), (lo1, -1), (-1, lo2)]
    if not is_int(r1):
        tiny = Fraction(2) ** (2 - FMT[r1][1] - FMT[r1][0])
        directed += [(tiny, 0), (-tiny, 1)]
    if not is_int(r2):
        tiny = Fraction(2) ** (2 - FMT[r2][1] - FMT[r2][0])
        directed += [(0, tiny), (1, -tiny)]
    # equal scaled counts across the two periods (x1*k1 == x2*k2 == lcm) and their neighbours, both signs
    g = math.gcd(k1, k2)
    e1, e2 = k2 // g, k1 // g
    directed += [(e1, e2), (-e1, -e2), (e1 + 1, e2), (e1, e2 + 1), (e1 - 1, e2), (2 * e1, 2 * e2), (e1, -e2)]
    if is_int(cr):
        clo, chi = INT_RANGE[cr]
        # scaled count exactly at / one beyond the edge of the common rep, for each operand
        directed += [(chi // k1, 0), (chi // k1 + 1, 0), (-((-clo) // k1), 0), (-((-clo) // k1) - 1, 0),
                     (0, chi // k2), (0, chi // k2 + 1), (0, -((-clo) // k2)), (0, -((-clo) // k2) - 1)]
        # sum / difference exactly at / one beyond the edge
        a = (chi // 2) // k1
        rest = chi - a * k1
        directed += [(a, rest // k2), (a, rest // k2 + 1), (-a, -(rest // k2) - 1), (-a, -(rest // k2) - 2),
                     (a, -(rest // k2)), (a, -(rest // k2) - 1)]
    else:
        # integral operand converted to a floating common rep: first integers that do not survive the conversion
        for idx, rep in ((0, r1), (1, r2)):
            if is_int(rep):
                for v in ((1 << 24) + 1, -(1 << 24) - 1, (1 << 53) + 1, (1 << 31) - 1):
                    directed.append((v, 1) if idx == 0 else (1, v))
        prec, emax = FMT[cr]
        big = (2 - Fraction(2) ** (1 - prec)) * Fraction(2) ** emax
        directed += [(big / k1, 0), (big / k1 * 2, 0), (0, big / k2), (0, -big / k2 * 2), (big / k1 / 2, big / k2 / 2)]
    directed = [(val(r1, x), val(r2, y)) for (x, y) in directed]
    seen, out = set(), []
    for pr in directed + sampled[:count]:
        if pr not in seen:
            seen.add(pr)
            out.append(pr)
    return out


def rt_values(rng, rep, count):
    if is_int(rep):
        lo, hi = INT_RANGE[rep]
        vals = [0, 1, -1, lo, lo + 1, hi, hi - 1, 123, 2147, -2147, 1 << 24, (1 << 24) + 1]
        vals += [rng.randrange(lo, hi + 1) for _ in range(count)]
        vals += [rng.randrange(-100000, 100000) for _ in range(count // 2)]
        return sorted({clampi(rep, v) for v in vals})
    return sorted(set(float_candidates(rng, rep)))


# ----------------------------------------------------------------------------------------------
# value <-> text
# ----------------------------------------------------------------------------------------------

def to_cxx(rep, v):
    """Text handed to the harness (decimal integers, hex floats)."""
    if isinstance(v, str):
        return v
    if is_int(rep):
        return str(v)
    f = float(v)
    assert Fraction(f) == v
    return f.hex()


def to_lean(rep, v):
    if is_int(rep):
        return str(v)
    return str(v.numerator) if v.denominator == 1 else f"{v.numerator}/{v.denominator}"


def parse_cxx(rep, s):
    """Harness output → int, Fraction, or one of 'inf', '-inf', 'nan'."""
    if is_int(rep):
        return int(s)
    if s in ("inf", "-inf", "nan"):
        return s
    return Fraction(float.fromhex(s))


def parse_model(tok):
    """`b:1`, `v:123`, `v:3/4`, `ub`, `nonfinite` → ('b', bool) | ('v', Fraction) | ('ub',) | ('nonfinite',)"""
    if tok.startswith("b:"):
        return ("b", tok[2:] == "1")
    if tok.startswith("v:"):
        return ("v", Fraction(tok[2:]))
    return (tok,)


# ----------------------------------------------------------------------------------------------
# C++ harness
# ----------------------------------------------------------------------------------------------

HARNESS_COMMON = r'''
#include <chrono>
#include <cmath>
#include <cstdint>
#include <cstdio>
#include <cstdlib>
#include <cstring>
#include <limits>
#include <ratio>
#include <string>
#include <type_traits>
#include "au/chrono_interop.hh"
#include "au/prefix.hh"
#include "au/quantity.hh"
#include "au/units/hours.hh"
#include "au/units/minutes.hh"
#include "au/units/seconds.hh"

extern volatile long g_ub;

template <class R, bool IsInt = std::is_integral<R>::value> struct Txt;
template <class R> struct Txt<R, true> {
    static R parse(const char* s) { return static_cast<R>(strtoll(s, nullptr, 10)); }
    static std::string str(R v) { return std::to_string(static_cast<long long>(v)); }
};
template <class R> struct Txt<R, false> {
    static R parse(const char* s) { return static_cast<R>(std::is_same<R, float>::value ? strtof(s, nullptr) : strtod(s, nullptr)); }
    static std::string str(R v) {
        if (std::isnan(v)) return "nan";
        if (std::isinf(v)) return v < 0 ? "-inf" : "inf";
        char b[64]; snprintf(b, sizeof b, "%a", static_cast<double>(v)); return b;
    }
};
template <class R> bool same_bits(R a, R b) { return std::memcmp(&a, &b, sizeof(R)) == 0; }
inline const char* b01(bool b) { return b ? "1" : "0"; }
template <class U> const char* unit_name() {
    return std::is_same<U, au::Nano<au::Seconds>>::value ? "Nano<Seconds>"
         : std::is_same<U, au::Micro<au::Seconds>>::value ? "Micro<Seconds>"
         : std::is_same<U, au::Milli<au::Seconds>>::value ? "Milli<Seconds>"
         : std::is_same<U, au::Seconds>::value ? "Seconds"
         : std::is_same<U, au::Minutes>::value ? "Minutes"
         : std::is_same<U, au::Hours>::value ? "Hours" : "-";
}
template <class U> std::string ratio_to_seconds() {
    constexpr auto r = au::unit_ratio(U{}, au::Seconds{});
    return std::to_string(au::get_value<std::uint64_t>(au::numerator(r))) + "/" +
           std::to_string(au::get_value<std::uint64_t>(au::denominator(r)));
}

// Guards: a conversion that the traits call unavailable is reported as "-" instead of breaking the build
// (so that a defect in the conversion machinery still yields a concrete failing input).
template <class To, class From, bool Ok = std::is_convertible<From, To>::value>
struct ImplicitConv {
    static constexpr bool ok = true;
    static To go(const From& f) { To t = f; return t; }
};
template <class To, class From>
struct ImplicitConv<To, From, false> {
    static constexpr bool ok = false;
    static To go(const From&) { return To{}; }
};
// as_chrono_duration(q) is only instantiated when q converts implicitly to the duration type it must return.
template <class Q, class Expect, bool Ok = std::is_convertible<Q, Expect>::value>
struct BackVia {
    static constexpr bool ok = true;
    using type = decltype(au::as_chrono_duration(std::declval<Q>()));
    static typename Expect::rep count(const Q& q) { return au::as_chrono_duration(q).count(); }
};
template <class Q, class Expect>
struct BackVia<Q, Expect, false> {
    static constexpr bool ok = false;
    using type = void;
    static typename Expect::rep count(const Q&) { return typename Expect::rep{}; }
};
template <class B> struct BackFacts {
    template <class R, class Dur> static std::string str() {
        std::string s;
        s += std::string(" back_rep_same=") + b01(std::is_same<typename B::rep, R>::value);
        s += " back_period=" + std::to_string(B::period::num) + "/" + std::to_string(B::period::den);
        s += std::string(" back_period_same=") + b01(std::is_same<typename B::period, typename Dur::period>::value);
        s += std::string(" back_type_same=") + b01(std::is_same<B, Dur>::value);
        return s;
    }
};
template <> struct BackFacts<void> {
    template <class R, class Dur> static std::string str() {
        return " back_rep_same=0 back_period=-/- back_period_same=0 back_type_same=0";
    }
};

// The library's own named unit for a period, where it has one (for ANY rep; CorrespondingQuantity itself uses the
// named units only for the int64 chrono typedefs): a quantity-equivalent but differently typed spelling of the unit.
template <std::intmax_t N, std::intmax_t D, class Fallback> struct NamedUnit { using type = Fallback; };
template <class F> struct NamedUnit<1, 1000000000, F> { using type = au::Nano<au::Seconds>; };
template <class F> struct NamedUnit<1, 1000000, F> { using type = au::Micro<au::Seconds>; };
template <class F> struct NamedUnit<1, 1000, F> { using type = au::Milli<au::Seconds>; };
template <class F> struct NamedUnit<1, 1, F> { using type = au::Seconds; };
template <class F> struct NamedUnit<60, 1, F> { using type = au::Minutes; };
template <class F> struct NamedUnit<3600, 1, F> { using type = au::Hours; };
template <class To, class From, bool Ok = std::is_assignable<To&, From>::value>
struct AssignConv {
    static constexpr bool ok = true;
    static To go(const From& f) { To t{}; t = f; return t; }
};
template <class To, class From>
struct AssignConv<To, From, false> {
    static constexpr bool ok = false;
    static To go(const From&) { return To{}; }
};

// Value categories of the foreign (duration) operand: as_quantity / implicit conversion are detected and evaluated
// for every cv-ref form X in {D&, const D&, D (rvalue), const D (const rvalue: a function returning `const D`, or
// std::move of a const duration)}; a form the library rejects is reported by name, not as a build failure.
template <class...> struct VoidT0 { using type = void; };
template <class X, class = void> struct CanAsQ : std::false_type {};
template <class X>
struct CanAsQ<X, typename VoidT0<decltype(au::as_quantity(std::declval<X>()))>::type> : std::true_type {};
template <class X, class R, bool Ok = CanAsQ<X>::value>
struct AsQ {
    static constexpr bool ok = true;
    static R go(X&& x) { const auto q = au::as_quantity(std::forward<X>(x)); return q.in(decltype(q)::unit); }
};
template <class X, class R> struct AsQ<X, R, false> { static constexpr bool ok = false; static R go(X&&) { return R{}; } };
template <class To, class X, bool Ok = std::is_convertible<X, To>::value>
struct ConvX {
    static constexpr bool ok = true;
    static To go(X&& x) { To t = std::forward<X>(x); return t; }
};
template <class To, class X> struct ConvX<To, X, false> { static constexpr bool ok = false; static To go(X&&) { return To{}; } };
template <class From, class To> std::string forms_convertible() {      // From, From&, const From&, From&&, const From, const From&&
    std::string s;
    s += b01(std::is_convertible<From, To>::value); s += b01(std::is_convertible<From&, To>::value);
    s += b01(std::is_convertible<const From&, To>::value); s += b01(std::is_convertible<From&&, To>::value);
    s += b01(std::is_convertible<const From, To>::value); s += b01(std::is_convertible<const From&&, To>::value);
    return s;
}

// One duration type: rep R, period std::ratio<N, D> as written.
template <class R, std::intmax_t N, std::intmax_t D>
struct TI {
    using Rep = R;
    using PeriodW = std::ratio<N, D>;
    using Dur = std::chrono::duration<R, PeriodW>;
    using CQ = decltype(au::as_quantity(std::declval<Dur>()));          // the corresponding quantity
    using U = typename CQ::Unit;
    using GU = decltype(au::Seconds{} * (au::mag<PeriodW::num>() / au::mag<PeriodW::den>()));
    using GQ = au::Quantity<GU, R>;                                      // generic-unit quantity
    using NU = typename NamedUnit<PeriodW::num, PeriodW::den, GU>::type;
    using NQ = au::Quantity<NU, R>;                                      // named-unit quantity (equivalent, maybe another type)
    using ExpectBack = std::chrono::duration<R, typename Dur::period>;   // same rep, reduced period
    using Back = typename BackVia<CQ, ExpectBack>::type;

    static std::string info() {
        std::string s;
        s += std::string("rep_same=") + b01(std::is_same<typename CQ::Rep, R>::value);
        s += std::string(" named=") + unit_name<U>();
        s += " uratio=" + ratio_to_seconds<U>();
        s += std::string(" equiv_generic=") + b01(au::AreUnitsQuantityEquivalent<U, GU>::value);
        s += BackFacts<Back>::template str<R, Dur>();
        s += std::string(" conv_d2q=") + b01(std::is_convertible<Dur, CQ>::value);
        s += std::string(" conv_q2d=") + b01(std::is_convertible<CQ, Dur>::value);
        s += std::string(" conv_d2g=") + b01(std::is_convertible<Dur, GQ>::value);
        s += std::string(" conv_g2d=") + b01(std::is_convertible<GQ, Dur>::value);
        // as_quantity(x) for x of type D, D&, const D&, D&&, const D, const D&&
        s += std::string(" asq_forms=") + b01(CanAsQ<Dur>::value) + b01(CanAsQ<Dur&>::value) + b01(CanAsQ<const Dur&>::value) +
             b01(CanAsQ<Dur&&>::value) + b01(CanAsQ<const Dur>::value) + b01(CanAsQ<const Dur&&>::value);
        s += " conv_forms_c=" + forms_convertible<Dur, CQ>() + " conv_forms_g=" + forms_convertible<Dur, GQ>() +
             " conv_forms_n=" + forms_convertible<Dur, NQ>();
        s += std::string(" cons_forms=") + b01(std::is_constructible<CQ, const Dur>::value) + b01(std::is_constructible<CQ, const Dur&&>::value) +
             b01(std::is_assignable<CQ&, const Dur>::value) + b01(std::is_assignable<CQ&, const Dur&&>::value);
        const Dur z = au::ZERO;                       // zero.hh: Zero converts to every duration
        const CQ zq = au::ZERO;
        s += " zero=" + Txt<R>::str(z.count()) + " zeroq_eq=" + b01(zq.in(U{}) == z.count());
        return s;
    }
    static const Dur make_const(R v) { return Dur{v}; }      // a function returning a const-qualified duration
    static void add(std::string& s, const char* name, bool avail, R c, R v) {
        s += std::string(" ") + name + "=" + (avail ? Txt<R>::str(c) : std::string("unavailable")) + ":" + b01(avail && same_bits(c, v));
    }
    static std::string rt(const char* a) {
        const R v = Txt<R>::parse(a);
        const long u0 = g_ub;
        const Dur d{v};
        Dur dl{v};                                     // non-const lvalue: CorrespondingQuantity<T&>
        const auto q = au::as_quantity(d);             // const lvalue: CorrespondingQuantity<const T&>
        std::string s = "in=" + Txt<R>::str(v);
        add(s, "asq", true, q.in(U{}), v);
        add(s, "asq_lv", true, au::as_quantity(dl).in(U{}), v);
        add(s, "asq_rv", true, au::as_quantity(Dur{v}).in(U{}), v);              // rvalue: CorrespondingQuantity<T>
        {   // every value category, guarded
            Dur m1{v}, m2{v};
            add(s, "asq_xv", AsQ<Dur, R>::ok, AsQ<Dur, R>::go(std::move(m1)), v);                       // D&& (xvalue)
            add(s, "asq_crv", AsQ<const Dur, R>::ok, AsQ<const Dur, R>::go(make_const(v)), v);          // const D prvalue
            add(s, "asq_cxv", AsQ<const Dur, R>::ok, AsQ<const Dur, R>::go(std::move(d)), v);           // const D&& (move of const)
            add(s, "ctor_lv", ConvX<CQ, Dur&>::ok, ConvX<CQ, Dur&>::go(dl).in(U{}), v);
            add(s, "ctor_xv", ConvX<CQ, Dur>::ok, ConvX<CQ, Dur>::go(std::move(m2)).in(U{}), v);
            add(s, "ctor_crv", ConvX<CQ, const Dur>::ok, ConvX<CQ, const Dur>::go(make_const(v)).in(U{}), v);
            add(s, "ctor_cxv", ConvX<CQ, const Dur>::ok, ConvX<CQ, const Dur>::go(std::move(d)).in(U{}), v);
            add(s, "gctor_crv", ConvX<GQ, const Dur>::ok, ConvX<GQ, const Dur>::go(make_const(v)).in(GU{}), v);
        }
        add(s, "ctor", ImplicitConv<CQ, Dur>::ok, ImplicitConv<CQ, Dur>::go(d).in(U{}), v);   // implicit constructor
        add(s, "assign_q", AssignConv<CQ, Dur>::ok, AssignConv<CQ, Dur>::go(d).in(U{}), v);   // q = d
        add(s, "back", BackVia<CQ, ExpectBack>::ok, BackVia<CQ, ExpectBack>::count(q), v);    // as_chrono_duration
        add(s, "conv", ImplicitConv<Dur, CQ>::ok, ImplicitConv<Dur, CQ>::go(q).count(), v);    // conversion operator
        add(s, "assign_d", AssignConv<Dur, CQ>::ok, AssignConv<Dur, CQ>::go(q).count(), v);    // d = q
        const GQ gq = ImplicitConv<GQ, Dur>::go(d);    // generic spelling of the same unit
        add(s, "gctor", ImplicitConv<GQ, Dur>::ok, gq.in(GU{}), v);
        add(s, "gconv", ImplicitConv<Dur, GQ>::ok, ImplicitConv<Dur, GQ>::go(au::make_quantity<GU>(v)).count(), v);
        add(s, "gback", BackVia<GQ, ExpectBack>::ok, BackVia<GQ, ExpectBack>::count(au::make_quantity<GU>(v)), v);
        const NQ nq = ImplicitConv<NQ, Dur>::go(d);    // the library's named unit (equivalent, differently typed)
        add(s, "nctor", ImplicitConv<NQ, Dur>::ok, nq.in(NU{}), v);
        add(s, "nconv", ImplicitConv<Dur, NQ>::ok, ImplicitConv<Dur, NQ>::go(au::make_quantity<NU>(v)).count(), v);
        add(s, "nback", BackVia<NQ, ExpectBack>::ok, BackVia<NQ, ExpectBack>::count(au::make_quantity<NU>(v)), v);
        s += " ub=" + std::to_string(g_ub - u0);
        return s;
    }
};

// The eight mixed operations as functors, with SFINAE detection: an operator that overload resolution
// rejects for the given operand types is reported as "unavailable" instead of breaking the build, so that a
// rejected-but-modelled-as-well-formed expression is an ordinary, named finding.
#define C17_OP(NAME, SYM) \
    struct NAME { template <class X, class Y> static constexpr auto f(const X& x, const Y& y) -> decltype(x SYM y) { return x SYM y; } };
C17_OP(OpEq, ==) C17_OP(OpNe, !=) C17_OP(OpLt, <) C17_OP(OpLe, <=) C17_OP(OpGt, >) C17_OP(OpGe, >=) C17_OP(OpAdd, +) C17_OP(OpSub, -)
template <class...> struct VoidT { using type = void; };
template <class Op, class X, class Y, class = void> struct CanOp : std::false_type {};
template <class Op, class X, class Y>
struct CanOp<Op, X, Y, typename VoidT<decltype(Op::f(std::declval<const X&>(), std::declval<const Y&>()))>::type> : std::true_type {};

// the same detection with the operands in a given value category (X, Y may be reference / const types)
#define C17_OPV(NAME, SYM) \
    template <class X, class Y, class = void> struct NAME##V : std::false_type {}; \
    template <class X, class Y> struct NAME##V<X, Y, typename VoidT<decltype(std::declval<X>() SYM std::declval<Y>())>::type> : std::true_type {};
C17_OPV(OpEq, ==) C17_OPV(OpNe, !=) C17_OPV(OpLt, <) C17_OPV(OpLe, <=) C17_OPV(OpGt, >) C17_OPV(OpGe, >=) C17_OPV(OpAdd, +) C17_OPV(OpSub, -)
template <class Op, class X, class Y> struct CanOpV;
#define C17_OPVSEL(NAME) template <class X, class Y> struct CanOpV<NAME, X, Y> : NAME##V<X, Y> {};
C17_OPVSEL(OpEq) C17_OPVSEL(OpNe) C17_OPVSEL(OpLt) C17_OPVSEL(OpLe) C17_OPVSEL(OpGt) C17_OPVSEL(OpGe) C17_OPVSEL(OpAdd) C17_OPVSEL(OpSub)

template <class X, class R0> struct Mk;
template <class R, class P, class R0> struct Mk<std::chrono::duration<R, P>, R0> {
    static std::chrono::duration<R, P> f(R0 a) { return std::chrono::duration<R, P>{a}; }
};
template <class U, class R, class R0> struct Mk<au::Quantity<U, R>, R0> {
    static au::Quantity<U, R> f(R0 a) { return au::make_quantity<U>(a); }
};
inline std::string show(bool b) { return b01(b); }
template <class U, class R> std::string show(au::Quantity<U, R> q) { return Txt<R>::str(q.in(U{})); }
template <class R, class P> std::string show(std::chrono::duration<R, P> d) { return Txt<R>::str(d.count()); }

template <class Op, class X, class Y, bool Ok = CanOp<Op, X, Y>::value>
struct Ev {
    static std::string go(const X& x, const Y& y, long& ub) {
        const long u0 = g_ub; const auto r = Op::f(x, y); ub = g_ub - u0; return show(r);
    }
};
template <class Op, class X, class Y>
struct Ev<Op, X, Y, false> { static std::string go(const X&, const Y&, long& ub) { ub = 0; return "unavailable"; } };

// Static facts about the mixed sum, guarded in the same way.
template <class X, class Y, class Q1, class Q2, class R1, class R2, class ChSum, bool Ok = CanOp<OpAdd, X, Y>::value>
struct SumFacts {
    static std::string str() {
        using AuSum = decltype(std::declval<const X&>() + std::declval<const Y&>());
        using CRep = typename AuSum::Rep;
        std::string s;
        s += std::string(" crep_same=") + b01(std::is_same<CRep, typename ChSum::rep>::value);
        s += std::string(" crep_is_common=") + b01(std::is_same<CRep, typename std::common_type<R1, R2>::type>::value);
        s += " au_unit=" + ratio_to_seconds<typename AuSum::Unit>();
        s += " k1=" + std::to_string(au::get_value<std::uint64_t>(au::unit_ratio(typename Q1::Unit{}, typename AuSum::Unit{})));
        s += " k2=" + std::to_string(au::get_value<std::uint64_t>(au::unit_ratio(typename Q2::Unit{}, typename AuSum::Unit{})));
        return s;
    }
    template <bool SubOk, class Dummy = void> struct Diff {
        static std::string str() {
            using AuSum = decltype(std::declval<const X&>() + std::declval<const Y&>());
            using AuDiff = decltype(std::declval<const X&>() - std::declval<const Y&>());
            return std::string(" diff_type_same=") + b01(std::is_same<AuDiff, AuSum>::value);
        }
    };
    template <class Dummy> struct Diff<false, Dummy> { static std::string str() { return " diff_type_same=-"; } };
};
template <class X, class Y, class Q1, class Q2, class R1, class R2, class ChSum>
struct SumFacts<X, Y, Q1, Q2, R1, R2, ChSum, false> {
    static std::string str() { return " crep_same=- crep_is_common=- au_unit=- k1=- k2=-"; }
    template <bool SubOk, class Dummy = void> struct Diff { static std::string str() { return " diff_type_same=-"; } };
};

// One ordered pair of duration types with a mixed-operation shape:
//   Side 0: Quantity(1) op duration(2);  Side 1: duration(1) op Quantity(2);
//   Spell: the Quantity operand is 0 = the corresponding quantity, 1 = the generic unit spelling,
//          2 = the library's named unit where there is one (else generic).
template <class T, int Spell> struct SpellQ { using type = typename T::CQ; };
template <class T> struct SpellQ<T, 1> { using type = typename T::GQ; };
template <class T> struct SpellQ<T, 2> { using type = typename T::NQ; };
template <class A, class B, int Side, int Spell>
struct PI {
    using D1 = typename A::Dur; using D2 = typename B::Dur;
    using R1 = typename A::Rep; using R2 = typename B::Rep;
    using Q1 = typename SpellQ<A, Spell>::type;
    using Q2 = typename SpellQ<B, Spell>::type;
    using L = typename std::conditional<Side == 0, Q1, D1>::type;
    using Rr = typename std::conditional<Side == 0, D2, Q2>::type;
    static L left(R1 a) { return Mk<L, R1>::f(a); }
    static Rr right(R2 b) { return Mk<Rr, R2>::f(b); }
    using ChSum = decltype(D1{} + D2{});
    using SF = SumFacts<L, Rr, Q1, Q2, R1, R2, ChSum>;

    static std::string info() {
        std::string s = "acc=";       // acceptance of ==, !=, <, <=, >, >=, +, - for these operand types, in this order
        s += b01(CanOp<OpEq, L, Rr>::value); s += b01(CanOp<OpNe, L, Rr>::value); s += b01(CanOp<OpLt, L, Rr>::value);
        s += b01(CanOp<OpLe, L, Rr>::value); s += b01(CanOp<OpGt, L, Rr>::value); s += b01(CanOp<OpGe, L, Rr>::value);
        s += b01(CanOp<OpAdd, L, Rr>::value); s += b01(CanOp<OpSub, L, Rr>::value);
        {   // the same eight operators with the duration operand as a non-const lvalue / as a const rvalue
            using DL = typename std::conditional<Side == 0, L, D1&>::type;  using DR = typename std::conditional<Side == 0, D2&, Rr>::type;
            using CL = typename std::conditional<Side == 0, L, const D1>::type;  using CR_ = typename std::conditional<Side == 0, const D2, Rr>::type;
            s += " acc_lv=";
            s += b01(CanOpV<OpEq, DL, DR>::value); s += b01(CanOpV<OpNe, DL, DR>::value); s += b01(CanOpV<OpLt, DL, DR>::value);
            s += b01(CanOpV<OpLe, DL, DR>::value); s += b01(CanOpV<OpGt, DL, DR>::value); s += b01(CanOpV<OpGe, DL, DR>::value);
            s += b01(CanOpV<OpAdd, DL, DR>::value); s += b01(CanOpV<OpSub, DL, DR>::value);
            s += " acc_crv=";
            s += b01(CanOpV<OpEq, CL, CR_>::value); s += b01(CanOpV<OpNe, CL, CR_>::value); s += b01(CanOpV<OpLt, CL, CR_>::value);
            s += b01(CanOpV<OpLe, CL, CR_>::value); s += b01(CanOpV<OpGt, CL, CR_>::value); s += b01(CanOpV<OpGe, CL, CR_>::value);
            s += b01(CanOpV<OpAdd, CL, CR_>::value); s += b01(CanOpV<OpSub, CL, CR_>::value);
        }
        s += SF::str();
        s += " ch_period=" + std::to_string(ChSum::period::num) + "/" + std::to_string(ChSum::period::den);
        s += SF::template Diff<CanOp<OpSub, L, Rr>::value>::str();
        return s;
    }
    static std::string run(const char* sa, const char* sb) {
        const R1 a = Txt<R1>::parse(sa); const R2 b = Txt<R2>::parse(sb);
        std::string s;
        {   // Au
            const L x = left(a); const Rr y = right(b);
            long u[8];
            s += "au_eq=" + Ev<OpEq, L, Rr>::go(x, y, u[0]) + " au_ne=" + Ev<OpNe, L, Rr>::go(x, y, u[1]);
            s += " au_lt=" + Ev<OpLt, L, Rr>::go(x, y, u[2]); s += " au_le=" + Ev<OpLe, L, Rr>::go(x, y, u[3]);
            s += " au_gt=" + Ev<OpGt, L, Rr>::go(x, y, u[4]); s += " au_ge=" + Ev<OpGe, L, Rr>::go(x, y, u[5]);
            s += " au_ub_cmp=" + std::to_string(u[0] + u[1] + u[2] + u[3] + u[4] + u[5]);
            s += " au_add=" + Ev<OpAdd, L, Rr>::go(x, y, u[6]); s += " au_ub_add=" + std::to_string(u[6]);
            s += " au_sub=" + Ev<OpSub, L, Rr>::go(x, y, u[7]); s += " au_ub_sub=" + std::to_string(u[7]);
        }
        {   // std::chrono on the same counts
            const D1 x{a}; const D2 y{b};
            long u[8];
            s += " ch_eq=" + Ev<OpEq, D1, D2>::go(x, y, u[0]) + " ch_ne=" + Ev<OpNe, D1, D2>::go(x, y, u[1]);
            s += " ch_lt=" + Ev<OpLt, D1, D2>::go(x, y, u[2]); s += " ch_le=" + Ev<OpLe, D1, D2>::go(x, y, u[3]);
            s += " ch_gt=" + Ev<OpGt, D1, D2>::go(x, y, u[4]); s += " ch_ge=" + Ev<OpGe, D1, D2>::go(x, y, u[5]);
            s += " ch_ub_cmp=" + std::to_string(u[0] + u[1] + u[2] + u[3] + u[4] + u[5]);
            s += " ch_add=" + Ev<OpAdd, D1, D2>::go(x, y, u[6]); s += " ch_ub_add=" + std::to_string(u[6]);
            s += " ch_sub=" + Ev<OpSub, D1, D2>::go(x, y, u[7]); s += " ch_ub_sub=" + std::to_string(u[7]);
        }
        return s;
    }
};

struct TEntry { int id; std::string (*info)(); std::string (*rt)(const char*); };
struct PEntry { int id; std::string (*info)(); std::string (*run)(const char*, const char*); };
'''

HARNESS_MAIN = r'''
#include <sys/resource.h>
#include <sys/wait.h>
#include <unistd.h>
volatile long g_ub = 0;
extern "C" void __ubsan_on_report(void) { g_ub = g_ub + 1; }
int main() {
    static char line[4096];
    while (fgets(line, sizeof line, stdin)) {
        char cmd = 0; int id = 0; static char a[1024], b[1024]; a[0] = b[0] = 0;
        int n = sscanf(line, " %c %d %1023s %1023s", &cmd, &id, a, b);
        std::string out = "bad";
        if (n >= 2 && cmd == 'I') {
            for (int c = 0; c < n_tchunks; ++c) for (int i = 0; i < tchunk_sizes[c]; ++i) if (tchunks[c][i].id == id)
                out = tchunks[c][i].info();
        } else if (n >= 2 && cmd == 'J') {
            for (int c = 0; c < n_pchunks; ++c) for (int i = 0; i < pchunk_sizes[c]; ++i) if (pchunks[c][i].id == id)
                out = pchunks[c][i].info();
        } else if ((n >= 4 && cmd == 'O') || (n >= 3 && cmd == 'R')) {
            // UBSan reports each source location once per process, so every evaluation runs in a
            // forked child: a sanitizer report is then attributable to this very input.
            fflush(stdout);
            pid_t pid = fork();
            if (pid == 0) {
                struct rlimit rl; rl.rlim_cur = 30; rl.rlim_max = 40; setrlimit(RLIMIT_CPU, &rl);    // CPU seconds, not wall time
                if (cmd == 'O') {
                    for (int c = 0; c < n_pchunks; ++c) for (int i = 0; i < pchunk_sizes[c]; ++i) if (pchunks[c][i].id == id)
                        out = pchunks[c][i].run(a, b);
                } else {
                    for (int c = 0; c < n_tchunks; ++c) for (int i = 0; i < tchunk_sizes[c]; ++i) if (tchunks[c][i].id == id)
                        out = tchunks[c][i].rt(a);
                }
                printf("%c %d %s\n", cmd, id, out.c_str());
                fflush(stdout);
                _exit(0);
            }
            int status = 0;
            waitpid(pid, &status, 0);
            if (!(WIFEXITED(status) && WEXITSTATUS(status) == 0)) { printf("%c %d crashed\n", cmd, id); fflush(stdout); }
            continue;
        }
        printf("%c %d %s\n", cmd, id, out.c_str());
        fflush(stdout);
    }
    return 0;
}
'''

ACCEPT_COMMON = r'''
#include <chrono>
#include <cstdint>
#include <cstdio>
#include <ratio>
#include <type_traits>
#include "au/chrono_interop.hh"
#include "au/prefix.hh"
#include "au/quantity.hh"
#include "au/units/hours.hh"
#include "au/units/minutes.hh"
#include "au/units/seconds.hh"
template <std::intmax_t N, std::intmax_t D, class Fallback> struct NamedUnit { using type = Fallback; };
template <class F> struct NamedUnit<1, 1000000000, F> { using type = au::Nano<au::Seconds>; };
template <class F> struct NamedUnit<1, 1000000, F> { using type = au::Micro<au::Seconds>; };
template <class F> struct NamedUnit<1, 1000, F> { using type = au::Milli<au::Seconds>; };
template <class F> struct NamedUnit<1, 1, F> { using type = au::Seconds; };
template <class F> struct NamedUnit<60, 1, F> { using type = au::Minutes; };
template <class F> struct NamedUnit<3600, 1, F> { using type = au::Hours; };
template <class R, std::intmax_t N, std::intmax_t D>
struct TI {
    using Rep = R;
    using Dur = std::chrono::duration<R, std::ratio<N, D>>;
    using CQ = decltype(au::as_quantity(std::declval<Dur>()));
    using GU = decltype(au::Seconds{} * (au::mag<std::ratio<N, D>::num>() / au::mag<std::ratio<N, D>::den>()));
    using GQ = au::Quantity<GU, R>;
    using NU = typename NamedUnit<std::ratio<N, D>::num, std::ratio<N, D>::den, GU>::type;
    using NQ = au::Quantity<NU, R>;
};
template <class R, bool I = std::is_integral<R>::value> struct PV { static void p(R v) { printf("%lld", (long long)v); } };
template <class R> struct PV<R, false> { static void p(R v) { printf("%a", (double)v); } };
template <class U, class R> R count_of(au::Quantity<U, R> q) { return q.in(U{}); }
template <class R, class P> R count_of(std::chrono::duration<R, P> d) { return d.count(); }
template <class U, class R, class V> au::Quantity<U, R> make_like(au::Quantity<U, R>*, V v) { return au::make_quantity<U>(static_cast<R>(v)); }
template <class R, class P, class V> std::chrono::duration<R, P> make_like(std::chrono::duration<R, P>*, V v) { return std::chrono::duration<R, P>{static_cast<R>(v)}; }
// values produced by an accepted implicit conversion From -> To, for the counts 1, -3, 7
template <class To, class From, bool Ok = std::is_convertible<From, To>::value>
struct Vals {
    static void p() {
        const int vs[3] = {1, -3, 7};
        for (int i = 0; i < 3; ++i) {
            const To t = make_like(static_cast<From*>(nullptr), vs[i]);
            if (i) printf(",");
            PV<decltype(count_of(t))>::p(count_of(t));
        }
    }
};
template <class To, class From> struct Vals<To, From, false> { static void p() { printf("-"); } };
// target: quantity types of T (generic unit GQ, named unit NQ) and T's duration;  source: duration S / quantity of S
template <class T, class S>
struct Acc {
    static void row(int t, int s) {
        printf("%d %d dur=%d qty=%d cons=%d assign=%d chrono=%d back=%d durn=%d", t, s,
               (int)std::is_convertible<typename S::Dur, typename T::GQ>::value,
               (int)std::is_convertible<typename S::CQ, typename T::GQ>::value,
               (int)std::is_constructible<typename T::GQ, typename S::Dur>::value,
               (int)std::is_assignable<typename T::GQ&, typename S::Dur>::value,
               (int)std::is_convertible<typename S::Dur, typename T::Dur>::value,
               (int)std::is_convertible<typename S::GQ, typename T::Dur>::value,
               (int)std::is_convertible<typename S::Dur, typename T::NQ>::value);
        // the same question for every cv-ref form of the duration: const D, const D&, D&&, const D&&
        printf(" dur_forms=%d%d%d%d qty_forms=%d%d%d%d",
               (int)std::is_convertible<const typename S::Dur, typename T::GQ>::value,
               (int)std::is_convertible<const typename S::Dur&, typename T::GQ>::value,
               (int)std::is_convertible<typename S::Dur&&, typename T::GQ>::value,
               (int)std::is_convertible<const typename S::Dur&&, typename T::GQ>::value,
               (int)std::is_convertible<const typename S::CQ, typename T::GQ>::value,
               (int)std::is_convertible<const typename S::CQ&, typename T::GQ>::value,
               (int)std::is_convertible<typename S::CQ&&, typename T::GQ>::value,
               (int)std::is_convertible<const typename S::CQ&&, typename T::GQ>::value);
        printf(" dq_val="); Vals<typename T::GQ, typename S::Dur>::p();
        printf(" dn_val="); Vals<typename T::NQ, typename S::Dur>::p();
        printf(" qd_val="); Vals<typename T::Dur, typename S::GQ>::p();
        printf("\n");
    }
};
struct AEntry { int t, s; void (*row)(int, int); };
#define ACC(t, s, T, S) { t, s, &Acc<T, S>::row }
'''


def ti(t):
    return f"TI<{CTYPE[t['rep']]}, {t['n']}, {t['d']}>"


def write_value_harness(wd, types, pairs, nchunks):
    files = []
    tch = [types[i::8] for i in range(8)]
    tch = [c for c in tch if c]
    pch = [pairs[i::nchunks] for i in range(nchunks)]
    pch = [c for c in pch if c]
    for ci, ch in enumerate(tch):
        p = os.path.join(wd, f"types{ci}.cc")
        with open(p, "w") as f:
            f.write(HARNESS_COMMON)
            f.write(f"extern const TEntry ttable{ci}[] = {{\n")
            for t in ch:
                f.write(f"  {{ {t['id']}, &{ti(t)}::info, &{ti(t)}::rt }},\n")
            f.write("};\n")
        files.append(p)
    for ci, ch in enumerate(pch):
        p = os.path.join(wd, f"pairs{ci}.cc")
        with open(p, "w") as f:
            f.write(HARNESS_COMMON)
            f.write(f"extern const PEntry ptable{ci}[] = {{\n")
            for pr in ch:
                inst = f"PI<{ti(pr['a'])}, {ti(pr['b'])}, {pr['side']}, {SPELL_ID[pr['spell']]}>"
                f.write(f"  {{ {pr['id']}, &{inst}::info, &{inst}::run }},\n")
            f.write("};\n")
        files.append(p)
    p = os.path.join(wd, "main.cc")
    with open(p, "w") as f:
        f.write(HARNESS_COMMON)
        for ci in range(len(tch)):
            f.write(f"extern const TEntry ttable{ci}[];\n")
        for ci in range(len(pch)):
            f.write(f"extern const PEntry ptable{ci}[];\n")
        f.write("static const TEntry* const tchunks[] = {" + ", ".join(f"ttable{i}" for i in range(len(tch))) + "};\n")
        f.write("static const int tchunk_sizes[] = {" + ", ".join(str(len(c)) for c in tch) + "};\n")
        f.write(f"static const int n_tchunks = {len(tch)};\n")
        f.write("static const PEntry* const pchunks[] = {" + (", ".join(f"ptable{i}" for i in range(len(pch))) or "nullptr") + "};\n")
        f.write("static const int pchunk_sizes[] = {" + (", ".join(str(len(c)) for c in pch) or "0") + "};\n")
        f.write(f"static const int n_pchunks = {len(pch)};\n")
        f.write(HARNESS_MAIN)
    files.append(p)
    return files


def build(wd, files, compiler, std, tag, san=True, opt="-O1"):
    def comp(src):
        obj = src[:-3] + f".{tag}.o"
        rc, out = cxx(src, obj, compiler=compiler, std=std, san=san, opt=opt, extra=["-c"])
        return src, obj, rc, out
    objs = []
    for src, obj, rc, out in pmap(comp, files):
        if rc != 0:
            return None, {"src": src, "output": out[-5000:]}
        objs.append(obj)
    exe = os.path.join(wd, f"{os.path.basename(files[-1])[:-3]}_{tag}")
    sanf = (SAN_CLANG if compiler.startswith("clang") else SAN_GCC) if san else []
    rc, out, err = run([compiler] + sanf + objs + ["-o", exe])
    if rc != 0:
        return None, {"src": "link", "output": (out + err)[-4000:]}
    return exe, None


def run_lines(exe, lines, shards=16):
    if not lines:
        return [], []
    buckets = [list(range(i, len(lines), shards)) for i in range(shards)]

    def work(idx):
        if not idx:
            return [], ""
        rc, out, err = run([exe], inp="\n".join(lines[i] for i in idx) + "\n", env=UBSAN_ENV, timeout=3600)
        res = [l for l in out.split("\n") if l]
        if len(res) != len(idx):
            raise RuntimeError(f"harness: rc={rc}, {len(res)} answers for {len(idx)} requests; stderr tail:\n{err[-3000:]}")
        return res, err
    outs = pmap(work, buckets, workers=shards)
    ans = [None] * len(lines)
    errs = []
    for idx, (res, err) in zip(buckets, outs):
        errs.append(err)
        for i, r in zip(idx, res):
            ans[i] = r.split(" ", 2)[2] if r.count(" ") >= 2 else r
    return ans, errs


def write_accept_harness(wd, types, cells, nchunks=8):
    """cells: list of (t_index, s_index) that are expected to be well-formed."""
    files = []
    chunks = [cells[i::nchunks] for i in range(nchunks)]
    chunks = [c for c in chunks if c]
    for ci, ch in enumerate(chunks):
        p = os.path.join(wd, f"acc{ci}.cc")
        with open(p, "w") as f:
            f.write(ACCEPT_COMMON)
            for t in types:
                f.write(f"using T{t['id']} = {ti(t)};\n")
            f.write(f"extern const AEntry atable{ci}[] = {{\n")
            for (t, s) in ch:
                f.write(f"  ACC({t}, {s}, T{t}, T{s}),\n")
            f.write("};\n")
            f.write(f"extern const int asize{ci} = {len(ch)};\n")
        files.append(p)
    p = os.path.join(wd, "accmain.cc")
    with open(p, "w") as f:
        f.write("#include <cstdio>\nstruct AEntry { int t, s; void (*row)(int, int); };\n")
        for ci in range(len(chunks)):
            f.write(f"extern const AEntry atable{ci}[]; extern const int asize{ci};\n")
        f.write("int main() {\n")
        for ci in range(len(chunks)):
            f.write(f"  for (int i = 0; i < asize{ci}; ++i) {{ const AEntry& e = atable{ci}[i]; e.row(e.t, e.s); }}\n")
        f.write("  return 0;\n}\n")
    files.append(p)
    return files


AU_DIAG = ("Value outside range of destination type", "Dangerous conversion for integer Rep",
           "Cannot represent non-integer in integral destination type")


def probe_src(kind, a, b, side=0, spell="c"):
    """Negative probes: programs that must be rejected by the compiler."""
    head = HARNESS_COMMON + "volatile long g_ub = 0;\n"
    A, B = ti(a), ti(b)
    if kind == "op":
        inst = f"PI<{A}, {B}, {side}, {SPELL_ID[spell]}>"
        return head + f"int main() {{ return (int){inst}::run(\"1\", \"1\").size(); }}\n"
    if kind == "trait-dur":       # target a (generic quantity), source duration b
        return head + f"int main() {{ return std::is_convertible<{B}::Dur, {A}::GQ>::value; }}\n"
    if kind == "trait-qty":
        return head + f"int main() {{ return std::is_convertible<{B}::CQ, {A}::GQ>::value; }}\n"
    if kind == "site":            # a call site that the traits say is not an implicit conversion
        return head + f"int main() {{ {A}::GQ q = {B}::Dur{{1}}; return (int)q.in({A}::GU{{}}); }}\n"
    raise ValueError(kind)


# ----------------------------------------------------------------------------------------------
# the check
# ----------------------------------------------------------------------------------------------

def type_key(t):
    return f"{t['rep']}:{t['n']}/{t['d']}"


def explore(tier, seed, rng, wd):
    t0 = time.time()
    drv = PrivateDriver(wd)
    violations = []
    stats = {"configs": [], "types": 0, "pairs_total": 0, "pairs_compiling": 0, "pairs_rejected_by_au": 0,
             "rt_cases": 0, "rt_nonfinite_cases": 0, "op_cases": 0, "op_evaluations": 0, "clean_scale_cases": 0,
             "unclean_cases": 0, "au_ub_cases": 0, "chrono_narrowed_cases": 0, "accept_cells": 0,
             "accept_true": 0, "accept_false": 0, "neg_probes": 0, "by_crep": {},
             "by_side": {}, "k_classes": {"both_one": 0, "one_scaled": 0, "both_scaled": 0},
             "add_sub_overflow_cases": 0, "equal_scaled_cases": 0, "nonfinite_result_cases": 0}
    samples = []

    tm = {}
    tlast = [time.time()]

    def lap(name):
        now = time.time()
        tm[name] = round(tm.get(name, 0) + now - tlast[0], 2)
        tlast[0] = now
    periods = gen_periods(rng, tier)
    types = []
    for rep in REPS:
        for (n, d) in periods:
            types.append({"id": len(types), "rep": rep, "n": n, "d": d})
    stats["types"] = len(types)
    stats["periods"] = [f"{n}/{d}" for (n, d) in periods]

    # ---- model: corresponding units ---------------------------------------------------------
    corr = [kv(l) for l in drv.ask([f"c17corr {t['rep']} {t['n']} {t['d']}" for t in types])]

    # ---- pair instances -----------------------------------------------------------------------
    side_code = side_code_of

    rep_pairs = [(a, b) for a in REPS for b in REPS]
    per_pp = 2 if tier == "quick" else 4
    pairs = []
    byrp = {(t["rep"], t["n"], t["d"]): t for t in types}
    shapes = [(sd, sp) for sp in "cqn" for sd in (0, 1)]          # operand order x unit spelling: cycled per rep pair
    cyc = {rp: rng.randrange(6) for rp in rep_pairs}

    def add_pair(r1, p1, r2, p2, side=None, spell=None, directed=False):
        if side is None:
            side, spell = shapes[cyc[(r1, r2)] % 6]
            cyc[(r1, r2)] += 1
        pairs.append({"id": len(pairs), "a": byrp[(r1,) + p1], "b": byrp[(r2,) + p2], "side": side, "spell": spell,
                      "directed": directed})
    # directed: identical types (chrono's identical-type common_type, Au's same-type hidden friends), both orders
    milli, sec = (1, 1000), (1, 1)
    for r in REPS:
        add_pair(r, milli, r, milli, 0, "n", True)
        add_pair(r, sec, r, sec, 1, "c", True)
    # directed: each std::chrono typedef (int64 rep, named period) as the duration operand, on the left and on the right,
    # against a quantity in another named unit spelled with the library's unit type, rep rotating
    named = [p for p in NAMED if p in periods]
    for i, p in enumerate(named):
        other = named[(i + 2) % len(named)]
        r = REPS[i % 4]
        add_pair("i64", p, r, other, 1, "n", True)        # std::chrono::X{..} op au::unit(..)
        add_pair(r, other, "i64", p, 0, "n", True)        # au::unit(..) op std::chrono::X{..}
    k = rng.randrange(16)
    for i1, p1 in enumerate(periods):
        for i2, p2 in enumerate(periods):
            # quick tier: every ordered period pair, alternately with two and one rep pair (random volume trimmed in
            # favour of the directed cases above)
            npp = per_pp if (tier != "quick" or (i1 + i2) % 2 == 0) else 1
            chosen = [rep_pairs[(k + j * 5) % 16] for j in range(npp)]     # 5 is coprime to 16: all pairs in turn
            k += npp * 5 + 1
            for (r1, r2) in chosen:
                add_pair(r1, p1, r2, p2)
    stats["pairs_total"] = len(pairs)

    def ops_req(pr, x1, x2):
        a, b = pr["a"], pr["b"]
        return (f"c17ops {model_shape(side_code(pr))} {a['rep']} {a['n']} {a['d']} {to_lean(a['rep'], x1)} "
                f"{b['rep']} {b['n']} {b['d']} {to_lean(b['rep'], x2)}")

    # the model decides which pair instances are well-formed in Au (policy static_assert)
    zero = {r: (0 if is_int(r) else Fraction(0)) for r in REPS}
    pinfo = [kv(l) for l in drv.ask([ops_req(pr, zero[pr["a"]["rep"]], zero[pr["b"]["rep"]]) for pr in pairs])]
    lap("model_pairs")
    compiling, rejected = [], []
    for pr, mi in zip(pairs, pinfo):
        pr["model"] = mi
        a, b = pr["a"], pr["b"]
        pa, pb = (a["n"], a["d"]), (b["n"], b["d"])
        pol = au_policy_oracle(a["rep"], pa, b["rep"], pb)
        rec = {"kind": "pair", "a": type_key(a), "b": type_key(b), "shape": side_code(pr), "observable": "compiles",
               "model": mi["compiles"], "documented_policy": pol}
        if (mi["compiles"] == "ok") != pol:
            violations.append({"what": "model's mixedCompiles disagrees with the documented threshold formula",
                               "class": "model-vs-formula-compiles", "no_input": True, "broken": "Au.Chrono.mixedCompiles",
                               "rec": rec})
        (compiling if mi["compiles"] == "ok" else rejected).append(pr)
    stats["pairs_compiling"] = len(compiling)
    stats["pairs_rejected_by_au"] = len(rejected)

    # ---- values ---------------------------------------------------------------------------------
    nvals = 14 if tier == "quick" else 36
    for pr in compiling:
        a, b = pr["a"], pr["b"]
        pr["vals"] = gen_value_pairs(rng, a["rep"], (a["n"], a["d"]), b["rep"], (b["n"], b["d"]), nvals)
    rtv = {t["id"]: rt_values(rng, t["rep"], 12 if tier == "quick" else 60) for t in types}
    # non-finite / signed-zero operands (floating reps): judged against std::chrono's own answer only (not modelled)
    for pr in compiling:
        fa, fb = not is_int(pr["a"]["rep"]), not is_int(pr["b"]["rep"])
        sp = []
        if fa:
            sp += [("nan", 1), ("inf", 1), ("-inf", -2), ("-0x0p+0", 0)]
        if fb:
            sp += [(1, "nan"), (1, "inf"), (3, "-inf"), (0, "-0x0p+0")]
        if fa and fb:
            sp += [("inf", "inf"), ("inf", "-inf"), ("nan", "nan"), ("-0x0p+0", "-0x0p+0")]
        conv = lambda rep, x: x if isinstance(x, str) else (x if is_int(rep) else Fraction(x))
        pr["vals"] += [(conv(pr["a"]["rep"], x), conv(pr["b"]["rep"], y)) for (x, y) in sp]

    lap("gen_values")
    # ---- model answers -----------------------------------------------------------------------
    mreq, mkey = [], []
    for pr in compiling:
        for (x1, x2) in pr["vals"]:
            if isinstance(x1, str) or isinstance(x2, str):
                continue
            mreq.append(ops_req(pr, x1, x2))
            mkey.append((pr["id"], x1, x2))
    mans = dict(zip(mkey, drv.ask(mreq)))
    rreq, rkey = [], []
    for t in types:
        for v in rtv[t["id"]]:
            rreq.append(f"c17rt {t['rep']} {t['n']} {t['d']} {to_lean(t['rep'], v)}")
            rkey.append((t["id"], v))
    rans = dict(zip(rkey, drv.ask(rreq)))

    lap("model_values")
    # ---- acceptance matrix (model + formula) ------------------------------------------------
    areq = [f"c17accept {t['rep']} {t['n']} {t['d']} {s['rep']} {s['n']} {s['d']}" for t in types for s in types]
    amodel = {}
    for (t, s), l in zip(((t, s) for t in types for s in types), drv.ask(areq)):
        amodel[(t["id"], s["id"])] = kv(l)
    cells_ok = []
    for t in types:
        for s in types:
            m = amodel[(t["id"], s["id"])]
            want = accept_oracle(t["rep"], (t["n"], t["d"]), s["rep"], (s["n"], s["d"]))
            wtxt = "true" if want else "false"
            stats["accept_cells"] += 1
            if m["dur"] != wtxt or m["qty"] != wtxt:
                violations.append({"what": "model's durationAccepted disagrees with the documented formula (threshold 2147)",
                                   "class": "model-vs-formula-accept", "no_input": True, "broken": "Au.Chrono.durationAccepted",
                                   "rec": {"kind": "accept", "target": type_key(t), "source": type_key(s), "model": m, "formula": wtxt}})
            if (m["chrono"] == "1") != chrono_accept_oracle(t["rep"], (t["n"], t["d"]), s["rep"], (s["n"], s["d"])):
                violations.append({"what": "model's chronoConvertible disagrees with chrono's documented rule",
                                   "class": "model-vs-formula-chrono", "no_input": True, "broken": "Au.Chrono.chronoConvertible",
                                   "rec": {"kind": "accept", "target": type_key(t), "source": type_key(s), "model": m}})
            cells_ok.append((t["id"], s["id"]))

    lap("model_accept")
    # ---- build and run ---------------------------------------------------------------------------
    # every run has a C++14 configuration and a C++20 one (operator rewriting / synthesised != differ) plus others
    configs = [("g++", "c++14", "g14")]
    cxx20 = [("g++", "c++20", "g20"), ("clang++-14", "c++20", "c20")]
    rest = [("g++", "c++17", "g17"), ("clang++-14", "c++14", "c14"), ("clang++-14", "c++17", "c17")]
    configs.append(cxx20[seed % 2])
    if tier == "quick":
        # one more C++14/17 configuration; with g++ -std=c++20 above it is a clang one, so every run has both compilers
        configs.append(rest[1 + (seed // 2) % 2] if seed % 2 == 0 else rest[seed % 3])
    else:
        configs += [cxx20[(seed + 1) % 2], rest[seed % 3], rest[(seed + 1) % 3]]
        configs.append(("g++", "c++14", "g14o1"))        # one optimised build (-O1) of a third of the pair instances
    files = write_value_harness(wd, types, compiling, 16 if tier == "quick" else 32)
    afiles = write_accept_harness(wd, types, cells_ok)
    byid = {t["id"]: t for t in types}
    pbyid = {p["id"]: p for p in pairs}
    distinct = set()
    for ci, (compiler, std, tag) in enumerate(configs):
        cfg = f"{compiler} -std={std}"
        # in the quick tier the second configuration builds a third of the pair instances
        if ci == 0 or (tier != "quick" and tag != "g14o1"):
            use = compiling
        else:
            directed = [p for p in compiling if p.get("directed")]
            rest_pairs = [p for p in compiling if not p.get("directed")]
            use = directed + (rest_pairs[2::12] if (tier == "quick" and ci == 2) else rest_pairs[1::3])
        fl = files if use is compiling else write_value_harness(os.path.join(wd), types, use, 16)
        # -O0 (the sanitizer-instrumented build is 3x faster than -O1); thorough adds one -O1 build of a third of the pairs
        opt = "-O1" if tag == "g14o1" else "-O0"
        exe, err = build(wd, fl, compiler, std, tag, opt=opt)
        lap("build_" + tag)
        if exe is None:
            violations.append({"what": f"value harness does not compile under {cfg}: a pair the model calls well-formed is "
                                       f"rejected, or the public chrono-interop API changed",
                               "class": "harness-build", "no_input": True, "broken": "correspondence: Au.Chrono.mixedCompiles / API",
                               "rec": {"kind": "build", "config": cfg}, "detail": err})
        if exe is not None:
            stats["configs"].append(f"{cfg} {opt}")
            lines = []
            for t in types:
                lines.append(f"I {t['id']}")
                for v in rtv[t["id"]]:
                    lines.append(f"R {t['id']} {to_cxx(t['rep'], v)}")
                if not is_int(t["rep"]):
                    for sp in ("nan", "inf", "-inf", "-0x0p+0"):
                        lines.append(f"R {t['id']} {sp}")
            for pr in use:
                lines.append(f"J {pr['id']}")
                for (x1, x2) in pr["vals"]:
                    lines.append(f"O {pr['id']} {to_cxx(pr['a']['rep'], x1)} {to_cxx(pr['b']['rep'], x2)}")
            answers, errs = run_lines(exe, lines)
            lap("run_" + tag)
            with open(os.path.join(wd, f"stderr_{tag}.txt"), "w") as ef:
                ef.write("\n".join(errs))
            vi = {}   # per-type / per-pair iterators over the value lists
            for l, a in zip(lines, answers):
                f = l.split()
                cmd, ident = f[0], int(f[1])
                if a is None or a == "bad":
                    violations.append({"what": "harness rejected a request", "class": "harness-bad", "no_input": True,
                                       "broken": "harness protocol", "rec": {"kind": "protocol", "line": l, "config": cfg}})
                    continue
                if a.startswith("crashed"):
                    who = type_key(byid[ident]) if cmd == "R" else type_key(pbyid[ident]["a"]) + " | " + type_key(pbyid[ident]["b"])
                    violations.append({"what": f"the harness process died (signal / CPU limit) while evaluating request `{l}` ({who})",
                                       "class": "crash-" + cmd, "rec": {"kind": "crash", "line": l, "config": cfg, "where": who}})
                    if cmd == "O":
                        vi[ident] = vi.get(ident, 0) + 1
                    continue
                r = kv(a)
                if cmd == "I":
                    check_type_info(byid[ident], corr[ident], r, cfg, violations, stats, samples)
                elif cmd == "R":
                    check_rt(byid[ident], f[2], r, rans, rtv, cfg, violations, stats, samples)
                elif cmd == "J":
                    check_pair_info(pbyid[ident], r, cfg, violations, stats)
                elif cmd == "O":
                    pr = pbyid[ident]
                    i = vi.get(ident, 0)
                    vi[ident] = i + 1
                    x1, x2 = pr["vals"][i]
                    if isinstance(x1, str) or isinstance(x2, str):
                        check_op_special(pr, x1, x2, r, cfg, violations, stats)
                    else:
                        check_op(pr, x1, x2, r, mans[(ident, x1, x2)], cfg, violations, stats, samples, distinct)
            stats["sanitizer_reports"] = stats.get("sanitizer_reports", 0) + sum(e.count("runtime error") for e in errs)
            lap("compare_" + tag)
        # acceptance traits (no run-time arithmetic: built without sanitizers)
        if ci == 0 or (tier != "quick" and tag != "g14o1"):
            aexe, err = build(wd, afiles, compiler, std, tag + "a", san=False)
            if aexe is None:
                violations.append({"what": f"acceptance-trait table does not compile under {cfg}: a trait the model calls "
                                           f"well-formed is a hard error",
                                   "class": "accept-build", "no_input": True, "broken": "correspondence: Au.Chrono.durationAccepted (hard region)",
                                   "rec": {"kind": "build", "config": cfg}, "detail": err})
            else:
                rc, out, e2 = run([aexe])
                for row in out.split("\n"):
                    if not row:
                        continue
                    ff = row.split()
                    check_accept(byid[int(ff[0])], byid[int(ff[1])], kv(row), amodel[(int(ff[0]), int(ff[1]))], cfg,
                                 violations, stats, samples)

    lap("accept_traits")
    # ---- negative probes ------------------------------------------------------------------------
    nprobe = 6 if tier == "quick" else 24
    probes = []
    def closeness(pr):
        a, b = pr["a"], pr["b"]
        k1, k2, _ = scale_factors((a["n"], a["d"]), (b["n"], b["d"]))
        return max(k1, k2) * THRESH / INT_RANGE.get(common_rep(a["rep"], b["rep"]), (0, 1))[1]
    rng.shuffle(rejected)
    near = sorted(rejected, key=closeness)
    picked = []
    for crep in ("i32", "i64"):           # the rejected pair closest to the 2147 threshold, for each integral common rep
        picked += [p for p in near if common_rep(p["a"]["rep"], p["b"]["rep"]) == crep][:2]
    picked += [p for p in rejected if p not in picked][:max(0, nprobe - len(picked))]
    for pr in picked:
        probes.append(("op", pr["a"], pr["b"], pr["side"], pr["spell"], "mixed operation rejected by the policy"))
    falses = [(t, s) for (t, s) in cells_ok if amodel[(t, s)]["dur"] == "false"]
    rng.shuffle(falses)
    for (t, s) in falses[:nprobe // 2]:
        probes.append(("site", byid[t], byid[s], 0, "c", "copy-initialisation the traits call non-convertible"))

    def do_probe(args):
        i, (kind, a, b, side, spell, what) = args
        p = os.path.join(wd, f"probe{i}.cc")
        open(p, "w").write(probe_src(kind, a, b, side, spell))
        rc, out = cxx(p, None, san=False, syntax_only=True)
        return kind, a, b, what, rc, out
    for kind, a, b, what, rc, out in pmap(do_probe, list(enumerate(probes))):
        stats["neg_probes"] += 1
        rec = {"kind": "probe", "probe": kind, "a": type_key(a), "b": type_key(b)}
        if rc == 0:
            violations.append({"what": f"negative probe compiles: {what}", "class": f"probe-compiles-{kind}", "no_input": True,
                               "broken": "correspondence: compile-time outcome (Au.Chrono.mixedCompiles / durationAccepted)",
                               "rec": rec})
        elif kind != "site" and not any(d in out for d in AU_DIAG):
            violations.append({"what": f"negative probe rejected for an unexpected reason: {what}", "class": "probe-diag",
                               "no_input": True, "broken": "probe allow-list", "rec": dict(rec, out=out[-1500:])})
        elif kind == "site" and "error" not in out:
            violations.append({"what": "negative probe failed without an error message", "class": "probe-diag",
                               "no_input": True, "broken": "probe allow-list", "rec": dict(rec, out=out[-1500:])})

    lap("probes")
    stats["timing_s"] = tm
    total = stats["rt_cases"] + stats["op_evaluations"] + stats["accept_cells"]
    coverage = {
        "evaluations": total,
        "distinct_nontrivial": len(distinct),
        "rule": "case = (rep1, period1, count1, rep2, period2, count2, shape) for mixed operations (8 operations each), "
                "(rep, period, count) for round trips, (target rep/unit, source rep/period) for acceptance. Periods: the six "
                "named chrono periods, 1/60, 1001/30000, 86400/1, a non-reduced spelling, threshold-boundary ratios "
                "(2147*k <= max(int32) at k = 1000225/1000226) and seeded random ratios; every ordered period pair with "
                "rotating rep pairs; counts from the model's guards (scaled count at the edge of the common rep, equal / "
                "adjacent scaled counts, sums at the edge, float overflow) + random. distinct_nontrivial = distinct "
                "mixed-operation cases with at least one scale factor > 1 on which chrono's computation is overflow-free",
        "samples": samples[:14],
        "exhaustive": False,
        "distribution": stats,
        "explore_s": round(time.time() - t0, 2),
    }
    pending = [v for v in violations if any(all(v["rec"].get(k) == w for k, w in pf.items()) for pf in PENDING_FINDINGS)]
    violations = [v for v in violations if v not in pending]
    stats["pending_finding_cases"] = len(pending)
    if pending:
        print(f"PENDING-FINDING: property={PROP} {len(pending)} case(s) match PENDING_FINDINGS in tools/p_c17.py: "
              f"{pending[0]['what']}")
    return coverage, violations


def check_type_info(t, m, r, cfg, violations, stats, samples):
    """Static facts of CorrespondingQuantity / as_chrono_duration for one duration type."""
    n, d = norm((t["n"], t["d"]))
    base = {"kind": "type", "rep": t["rep"], "period": f"{t['n']}/{t['d']}", "config": cfg}
    # statement-level oracle
    want_named = NAMED.get((t["n"], t["d"]), "-") if t["rep"] == "i64" else "-"
    if (n, d) == (1, 1):
        want_named = "Seconds"          # Seconds * Magnitude<> is Seconds itself (ComputeScaledUnit)
    bad = []
    if r["rep_same"] != "1":
        bad.append("as_quantity(d) does not have d's rep")
    if r["uratio"] != f"{n}/{d}":
        bad.append(f"unit of as_quantity(d) is seconds x {r['uratio']}, expected {n}/{d}")
    if r["equiv_generic"] != "1":
        bad.append("corresponding unit is not quantity-equivalent to Seconds * mag<num>/mag<den>")
    if r["back_rep_same"] != "1" or r["back_period"] != f"{n}/{d}" or r["back_period_same"] != "1":
        bad.append(f"as_chrono_duration(as_quantity(d)) has period {r['back_period']} (same={r['back_period_same']}), expected {n}/{d}")
    if (r["back_type_same"] == "1") != ((n, d) == (t["n"], t["d"])):
        bad.append("as_chrono_duration(as_quantity(d)) is the same duration type exactly when Period is in lowest terms: violated")
    for kq in ("conv_d2q", "conv_q2d", "conv_d2g", "conv_g2d"):
        if r[kq] != "1":
            bad.append(f"{kq}: duration and its corresponding quantity are not implicitly interconvertible")
    dur = f"std::chrono::duration<{CTYPE[t['rep']]}, std::ratio<{t['n']}, {t['d']}>>"
    forms = ["D", "D&", "const D&", "D&&", "const D", "const D&&"]
    for form, bit in zip(forms, r["asq_forms"]):
        if bit != "1":
            bad.append(f"value-category: `au::as_quantity(x)` is rejected for x of type `{form}` with D = {dur} "
                       f"(e.g. the result of a function returning `{form}`)")
    for key, tgt in (("conv_forms_c", "the corresponding Quantity"), ("conv_forms_g", "Quantity<Seconds * mag<num>/mag<den>, Rep>"),
                     ("conv_forms_n", "the named-unit Quantity")):
        for form, bit in zip(forms, r[key]):
            if bit != "1":
                bad.append(f"value-category: std::is_convertible<{form}, {tgt}> is false with D = {dur}, although the "
                           f"corresponding quantity is accepted")
    if r["cons_forms"] != "1111":
        bad.append(f"value-category: is_constructible / is_assignable from `const D` / `const D&&` = {r['cons_forms']} with D = {dur}")
    if parse_cxx(t["rep"], r["zero"]) != 0 or r["zeroq_eq"] != "1":
        bad.append(f"ZERO converts to a duration with count {r['zero']} (or does not compare equal to the zero quantity)")
    for b in bad:
        violations.append({"what": b, "class": "oracle-type-" + b.split()[0], "rec": dict(base, observable="type", impl=r)})
    # correspondence with the model
    if m["named"] != r["named"] or want_named != r["named"] or f"{m['num']}/{m['den']}" != r["uratio"]:
        violations.append({"what": "model's corrUnit differs from CorrespondingQuantity<...>::Unit", "class": "corr-type",
                           "no_input": True, "broken": "correspondence: Au.Chrono.corrUnit", "rec": dict(base, model=m, impl=r)})
    if len(samples) < 3:
        samples.append({"request": f"c17corr {t['rep']} {t['n']} {t['d']}", "model": m, "harness": r})


# every entry point of the round trip: as_quantity on const lvalue / lvalue / rvalue, implicit constructor and
# assignment from the duration, as_chrono_duration, conversion operator and assignment to the duration, and the same
# through the generic (g) and the library's named (n) spelling of the unit
RT_ROUTES = ("asq", "asq_lv", "asq_rv", "asq_xv", "asq_crv", "asq_cxv", "ctor_lv", "ctor_xv", "ctor_crv", "ctor_cxv", "gctor_crv",
             "ctor", "assign_q", "back", "conv", "assign_d", "gctor", "gconv", "gback",
             "nctor", "nconv", "nback")


def check_rt(t, vtxt, r, rans, rtv, cfg, violations, stats, samples):
    stats["rt_cases"] += 1
    base = {"kind": "rt", "rep": t["rep"], "period": f"{t['n']}/{t['d']}", "count": vtxt, "config": cfg}
    special = vtxt in ("nan", "inf", "-inf", "-0x0p+0")
    if special:
        stats["rt_nonfinite_cases"] += 1
    # oracle: every route returns the very same bits, no sanitizer report
    for k in RT_ROUTES:
        val, same = r[k].rsplit(":", 1)
        if same != "1":
            violations.append({"what": f"round trip ({k}) changes the count: in={r['in']} out={val}", "class": f"oracle-rt-{k}",
                               "rec": dict(base, observable=k, got=val)})
    if r["ub"] != "0":
        violations.append({"what": "sanitizer report during a round trip", "class": "oracle-rt-ub", "rec": dict(base, observable="ub")})
    if special:
        return
    # correspondence: the model's round trip
    v = parse_cxx(t["rep"], vtxt)
    key = (t["id"], v if is_int(t["rep"]) else Fraction(v))
    m = rans.get(key)
    if m is None:
        return
    mk = kv(m)
    n, d = norm((t["n"], t["d"]))
    vs = to_lean(t["rep"], key[1])
    want_back = f"ok:{t['rep']}:{n}/{d}:{vs}"
    want_imp = f"ok:{t['rep']}:{t['n']}/{t['d']}:{vs}"
    if mk["qrep"] != t["rep"] or mk["qval"] != vs or mk["back"] != want_back or mk["implicit"] != want_imp:
        violations.append({"what": "model's round trip does not return the duration it started from", "class": "corr-rt",
                           "no_input": True, "broken": "correspondence: Au.Chrono.asChronoDuration / toDuration",
                           "rec": dict(base, model=m)})
    if len(samples) < 6 and key[1] not in (0, 1, -1):
        samples.append({"request": f"c17rt {t['rep']} {t['n']} {t['d']} {vs}", "model": m, "harness": r})


SPELL_ID = {"c": 0, "q": 1, "n": 2}


def side_code_of(pr):
    """Shape of a pair instance: quantity spelling letter (c = corresponding quantity, q = generic unit, n = the
    library's named unit) and d = duration, left operand first."""
    return pr["spell"] + "d" if pr["side"] == 0 else "d" + pr["spell"]


def model_shape(shape):
    """The model knows corresponding (c) and generic (q) spellings; a named unit has the generic magnitude."""
    return shape.replace("n", "q")


def shape_parts(shape):
    side = 0 if shape[1] == "d" else 1
    return side, (shape[0] if side == 0 else shape[1])


OP_SYM = {"eq": "==", "ne": "!=", "lt": "<", "le": "<=", "gt": ">", "ge": ">=", "add": "+", "sub": "-"}


def operand_text(t, as_quantity, spell):
    """C++ spelling of one operand, for messages and records."""
    dur = f"std::chrono::duration<{CTYPE[t['rep']]}, std::ratio<{t['n']}, {t['d']}>>"
    if not as_quantity:
        return dur + "{x}"
    n, d = norm((t["n"], t["d"]))
    if spell == "n" and (n, d) in NAMED:
        unit = "au::" + NAMED[(n, d)].replace("<Seconds>", "<au::Seconds>")
        return f"au::make_quantity<{unit}>({CTYPE[t['rep']]}{{x}})"
    if spell in ("q", "n"):
        return f"au::make_quantity<decltype(au::Seconds{{}} * (au::mag<{n}>() / au::mag<{d}>()))>({CTYPE[t['rep']]}{{x}})"
    return f"au::as_quantity({dur}{{x}})"


def expression_text(pr, op):
    a, b = pr["a"], pr["b"]
    lhs = operand_text(a, pr["side"] == 0, pr["spell"])
    rhs = operand_text(b, pr["side"] == 1, pr["spell"])
    return f"{lhs} {OP_SYM[op]} {rhs}"


def check_pair_info(pr, r, cfg, violations, stats):
    a, b = pr["a"], pr["b"]
    m = pr["model"]
    base = {"kind": "pair", "a": type_key(a), "b": type_key(b), "shape": side_code_of(pr), "config": cfg}
    k1, k2, g = scale_factors((a["n"], a["d"]), (b["n"], b["d"]))
    gtxt = f"{g.numerator}/{g.denominator}"
    bad = []
    # acceptance of the eight operators for these operand types (the model calls every one of them well-formed:
    # only pairs with mixedCompiles = ok are instantiated)
    acc = r.get("acc", "")
    pr.setdefault("rejected_ops", {})[cfg] = [op for op, bit in zip(OPS, acc) if bit != "1"]
    stats["operator_acceptance_checks"] = stats.get("operator_acceptance_checks", 0) + len(acc)
    for op in pr["rejected_ops"][cfg]:
        expr = expression_text(pr, op)
        violations.append({"what": f"`{expr}` is rejected by {cfg} although the model (and std::chrono, and the documented policy) "
                                   f"call the expression well-formed",
                           "class": f"oracle-opaccept-{op}-{'qd' if pr['side'] == 0 else 'dq'}",
                           "rec": dict(base, kind="opaccept", op=op, expression=expr, shape=side_code_of(pr), acc=acc)})
    for key, form in (("acc_lv", "a non-const lvalue"), ("acc_crv", "a const rvalue (function returning const D)")):
        for op, b0, b1 in zip(OPS, acc, r.get(key, acc)):
            if b0 == "1" and b1 != "1":
                expr = expression_text(pr, op)
                violations.append({"what": f"`{expr}` is accepted but rejected by {cfg} when the duration operand is {form}",
                                   "class": f"oracle-opaccept-valuecat-{key}",
                                   "rec": dict(base, kind="opaccept", op=op, expression=expr, value_category=form, acc=acc,
                                               acc_form=r.get(key))})
    stats["operator_acceptance_checks"] += 16
    if r["au_unit"] == "-":
        return
    if r["crep_same"] != "1" or r["crep_is_common"] != "1":
        bad.append("result rep of the mixed sum differs from chrono's common rep")
    if r["au_unit"] != r["ch_period"]:
        bad.append(f"unit of the mixed sum is seconds x {r['au_unit']} but chrono's common period is {r['ch_period']}")
    if r["ch_period"] != gtxt:
        bad.append(f"chrono's common period {r['ch_period']} is not the rational gcd {gtxt} (oracle inconsistency)")
    if (int(r["k1"]), int(r["k2"])) != (k1, k2):
        bad.append(f"Au scales the operands by {r['k1']}, {r['k2']}; chrono by {k1}, {k2}")
    if r["diff_type_same"] == "0":
        bad.append("difference and sum have different types")
    for x in bad:
        violations.append({"what": x, "class": "oracle-pair-" + x.split()[0], "rec": dict(base, observable="pair", impl=r)})
    if (m["cnum"] + "/" + m["cden"] != r["au_unit"] or m["k1"] != r["k1"] or m["k2"] != r["k2"]
            or m["cpn"] + "/" + m["cpd"] != r["ch_period"] or CTYPE[m["crep"]] != CTYPE[common_rep(a["rep"], b["rep"])]):
        violations.append({"what": "model's common unit / scale factors / chrono common period differ from the implementation's",
                           "class": "corr-pair", "no_input": True, "broken": "correspondence: Au.Chrono.commonQuantity / chronoCommonPeriod",
                           "rec": dict(base, model={k: m[k] for k in ("cnum", "cden", "k1", "k2", "cpn", "cpd", "crep")}, impl=r)})


def check_op(pr, x1, x2, r, mline, cfg, violations, stats, samples, distinct):
    a, b = pr["a"], pr["b"]
    p1, p2 = (a["n"], a["d"]), (b["n"], b["d"])
    cr = common_rep(a["rep"], b["rep"])
    m = kv(mline)
    stats["op_cases"] += 1
    stats["op_evaluations"] += 8
    stats["by_crep"][cr] = stats["by_crep"].get(cr, 0) + 1
    sc = side_code_of(pr)
    stats["by_side"][sc] = stats["by_side"].get(sc, 0) + 1
    k1, k2, _ = scale_factors(p1, p2)
    stats["k_classes"]["both_one" if k1 == k2 == 1 else ("both_scaled" if k1 > 1 and k2 > 1 else "one_scaled")] += 1
    base = {"kind": "op", "a": type_key(a), "b": type_key(b), "x1": to_lean(a["rep"], x1), "x2": to_lean(b["rep"], x2),
            "shape": sc, "config": cfg}
    clean, want = oracle_ops(a["rep"], p1, x1, b["rep"], p2, x2)
    if clean:
        stats["clean_scale_cases"] += 1
        if want["eq"]:
            stats["equal_scaled_cases"] += 1
        if want["add"] is None or want["sub"] is None:
            stats["add_sub_overflow_cases"] += 1
        if k1 > 1 or k2 > 1:
            distinct.add((a["id"], b["id"], x1, x2, sc))
    else:
        stats["unclean_cases"] += 1
    if m.get("narrowed") == "1":
        stats["chrono_narrowed_cases"] += 1
    au_ub = {"cmp": int(r["au_ub_cmp"]), "add": int(r["au_ub_add"]), "sub": int(r["au_ub_sub"])}
    ch_ub = {"cmp": int(r["ch_ub_cmp"]), "add": int(r["ch_ub_add"]), "sub": int(r["ch_ub_sub"])}
    if any(au_ub.values()):
        stats["au_ub_cases"] += 1
    for op in OPS:
        grp = op if op in ("add", "sub") else "cmp"
        is_cmp = grp == "cmp"
        if r[f"au_{op}"] == "unavailable":
            continue                    # reported once per pair instance by check_pair_info (kind "opaccept")
        au = (r[f"au_{op}"] == "1") if is_cmp else parse_cxx(cr, r[f"au_{op}"])
        ch = (r[f"ch_{op}"] == "1") if is_cmp else parse_cxx(cr, r[f"ch_{op}"])
        w = want[op] if clean else None
        rec = dict(base, op=op, au=r[f"au_{op}"], chrono=r[f"ch_{op}"], expected=str(w))
        # ---- the property: whenever chrono's computation does not overflow, Au gives chrono's answer
        if w is not None:
            if ch != w or ch_ub[grp] or (not is_cmp and ch_ub["cmp"]):
                violations.append({"what": f"oracle inconsistency: std::chrono's own {op} differs from the exact recomputation",
                                   "class": "oracle-vs-chrono", "no_input": True, "broken": "independent oracle (tools/p_c17.py)",
                                   "rec": rec})
            if au != ch or au != w:
                violations.append({"what": f"mixed {op}: Au answers {r[f'au_{op}']}, std::chrono answers {r[f'ch_{op}']} "
                                           f"(chrono's computation does not overflow)", "class": f"oracle-op-{op}", "rec": rec})
            elif au_ub[grp] or au_ub["cmp"]:
                violations.append({"what": f"mixed {op}: sanitizer report inside Au although chrono's computation does not overflow",
                                   "class": f"oracle-ub-{op}", "rec": rec})
        # ---- correspondence with the model
        ma, mc = parse_model(m[f"au_{op}"]), parse_model(m[f"ch_{op}"])
        for side, mv, iv, ub in (("au", ma, au, au_ub), ("chrono", mc, ch, ch_ub)):
            okc = True
            if mv[0] in ("b", "v"):
                okc = (iv == mv[1]) and not ub[grp] and not ub["cmp"]
            elif mv[0] == "ub":
                okc = bool(ub[grp] or ub["cmp"])
            elif mv[0] == "nonfinite":
                if is_cmp:
                    okc = True          # some scaled operand is infinite; the boolean is whatever IEEE says
                else:
                    okc = iv in ("inf", "-inf", "nan")
                stats["nonfinite_result_cases"] += 1 if side == "au" and op == "add" else 0
            else:
                okc = False
            if not okc:
                violations.append({"what": f"model and implementation differ ({side} {op})", "class": f"corr-op-{side}",
                                   "no_input": True, "broken": f"correspondence: Au.Chrono.{'quantityOp' if side == 'au' else 'chronoOp'}",
                                   "rec": dict(rec, model=m[f"{'au' if side == 'au' else 'ch'}_{op}"], ub=ub)})
    if len(samples) < 14 and clean and (k1 > 1 or k2 > 1) and x1 not in (0, 1, -1) and stats["op_cases"] % 97 == 0:
        samples.append({"request": mline and f"c17ops {sc} {a['rep']} {a['n']} {a['d']} {base['x1']} {b['rep']} {b['n']} {b['d']} {base['x2']}",
                        "model": mline, "harness": " ".join(f"{k}={v}" for k, v in r.items())})


def check_op_special(pr, x1, x2, r, cfg, violations, stats):
    """Operands that are NaN, infinite or -0.0: Au must give exactly what std::chrono gives (text comparison keeps
    the sign of zero; every NaN prints as `nan`)."""
    a, b = pr["a"], pr["b"]
    stats["special_value_cases"] = stats.get("special_value_cases", 0) + 1
    stats["op_evaluations"] += 8
    base = {"kind": "op", "a": type_key(a), "b": type_key(b), "x1": to_cxx(a["rep"], x1), "x2": to_cxx(b["rep"], x2),
            "shape": side_code_of(pr), "config": cfg, "special": True, "nan_operand": "nan" in (x1, x2)}
    for op in OPS:
        au, ch = r[f"au_{op}"], r[f"ch_{op}"]
        if au == "unavailable":
            continue
        if au != ch:
            violations.append({"what": f"mixed {op} on non-finite / signed-zero operands ({base['x1']}, {base['x2']}): Au answers {au}, "
                                       f"std::chrono answers {ch}", "class": f"oracle-op-special-{op}",
                               "rec": dict(base, op=op, au=au, chrono=ch)})


def check_accept(t, s, r, m, cfg, violations, stats, samples):
    base = {"kind": "accept", "target": type_key(t), "source": type_key(s), "config": cfg}
    want = accept_oracle(t["rep"], (t["n"], t["d"]), s["rep"], (s["n"], s["d"]))
    stats["accept_true" if r["dur"] == "1" else "accept_false"] += 1
    # the property: a duration is accepted exactly when the corresponding quantity is (compiler's verdict on both)
    if r["dur"] != r["qty"]:
        violations.append({"what": f"is_convertible<duration, Q> = {r['dur']} but is_convertible<corresponding quantity, Q> = {r['qty']}",
                           "class": "oracle-accept-iff", "rec": dict(base, observable="accept", impl=r)})
    if r["cons"] != r["dur"] or r["assign"] != r["dur"]:
        violations.append({"what": "is_constructible / is_assignable from a duration differ from is_convertible",
                           "class": "oracle-accept-cons", "rec": dict(base, observable="accept-cons", impl=r)})
    if (r["dur"] == "1") != want:
        violations.append({"what": f"implicit acceptance {r['dur']} contradicts the documented rule (integer factor k with 2147*k <= max, "
                                   f"floats always): expected {want}", "class": "oracle-accept-formula",
                           "rec": dict(base, observable="accept-formula", impl=r)})
    if r["dur_forms"] != r["dur"] * 4 or r["qty_forms"] != r["qty"] * 4:
        forms = ["const D", "const D&", "D&&", "const D&&"]
        which = [f for f, b in zip(forms, r["dur_forms"]) if b != r["dur"]]
        violations.append({"what": f"acceptance depends on the value category of the source: is_convertible<D, Q> = {r['dur']} but for "
                                   f"{', '.join(which) or 'the corresponding quantity forms'} it is "
                                   f"{r['dur_forms']} (duration forms const D, const D&, D&&, const D&&) / {r['qty_forms']} (quantity forms); "
                                   f"D = duration {type_key(s)}, Q = Quantity {type_key(t)}",
                           "class": "oracle-accept-valuecat", "rec": dict(base, observable="accept-value-category", impl=r)})
    if r["back"] != r["dur"] or r["durn"] != r["dur"]:
        violations.append({"what": f"acceptance depends on the spelling / direction: duration -> generic-unit quantity {r['dur']}, "
                                   f"duration -> named-unit quantity {r['durn']}, quantity -> duration (conversion operator) {r['back']}",
                           "class": "oracle-accept-spelling", "rec": dict(base, observable="accept-spelling", impl=r)})
    # values delivered by the accepted conversions (counts 1, -3, 7): exactly count * k
    ratio = Fraction(s["n"], s["d"]) / Fraction(t["n"], t["d"])
    for col, what in (("dq_val", "duration -> Quantity (generic unit)"), ("dn_val", "duration -> Quantity (named unit)"),
                      ("qd_val", "Quantity -> duration (conversion operator)")):
        if r.get(col, "-") == "-":
            continue
        stats["accepted_conversion_values"] = stats.get("accepted_conversion_values", 0) + 3
        got = [parse_cxx(t["rep"], x) for x in r[col].split(",")]
        for v, g in zip((1, -3, 7), got):
            exact = v * ratio
            if is_int(t["rep"]) or (is_int(s["rep"]) and ratio.denominator == 1 and ratio.numerator <= (1 << 20)):
                okv = (g == exact)
            else:
                okv = not isinstance(g, str) and (abs(g - exact) <= abs(exact) * Fraction(1, 1 << 20) or
                                                  rne(t["rep"], exact) in (None, 0))
            if not okv:
                violations.append({"what": f"accepted implicit conversion {what} of count {v} from {type_key(s)} to {type_key(t)} "
                                           f"gives {g}, expected {exact}", "class": f"oracle-accept-value-{col}",
                                   "rec": dict(base, observable=col, count=v, got=str(g), expected=str(exact), impl=r)})
                break
    if (r["chrono"] == "1") != chrono_accept_oracle(t["rep"], (t["n"], t["d"]), s["rep"], (s["n"], s["d"])):
        violations.append({"what": "oracle inconsistency: chrono's own is_convertible differs from its documented rule",
                           "class": "oracle-vs-chrono-accept", "no_input": True, "broken": "independent oracle", "rec": dict(base, impl=r)})
    if r["dur"] == "1" and r["chrono"] != "1":
        violations.append({"what": "Au accepts a duration implicitly where chrono itself refuses the conversion",
                           "class": "oracle-accept-superset", "rec": dict(base, observable="accept-vs-chrono", impl=r)})
    # correspondence
    if m["dur"] != ("true" if r["dur"] == "1" else "false") or m["qty"] != ("true" if r["qty"] == "1" else "false") \
            or m["chrono"] != r["chrono"]:
        violations.append({"what": "model's acceptance answers differ from std::is_convertible", "class": "corr-accept",
                           "no_input": True, "broken": "correspondence: Au.Chrono.durationAccepted", "rec": dict(base, model=m, impl=r)})
    if len(samples) < 9 and r["dur"] == "0" and r["chrono"] == "1" and stats["accept_false"] % 41 == 0:
        samples.append({"request": f"c17accept {t['rep']} {t['n']} {t['d']} {s['rep']} {s['n']} {s['d']}", "model": m, "harness": r})


def main(tier, seed):
    t0 = time.time()
    wd = workdir(PROP)
    proof = prove(PROP)
    cov, viol = explore(tier, seed, rng_for(PROP, seed), wd)
    return finish(PROP, tier, seed, t0, proof, cov, viol, ASSUME)


def replay(path):
    """Re-run one recorded case against the current tree."""
    rec = json.load(open(path))
    r = rec.get("rec", {})
    print(json.dumps(r, indent=1, default=str))
    kind = r.get("kind")
    wd = workdir(PROP + "_replay")
    drv = PrivateDriver(wd)
    cfg = r.get("config", "g++ -std=c++14").split()
    compiler, std = cfg[0], cfg[1].replace("-std=", "")

    def mk(key, i):
        rep, per = key.split(":")
        n, d = per.split("/")
        return {"id": i, "rep": rep, "n": int(n), "d": int(d)}
    viol, stats, samples = [], {"rt_cases": 0, "rt_nonfinite_cases": 0, "op_cases": 0, "op_evaluations": 0, "by_crep": {},
                                "by_side": {}, "k_classes": {"both_one": 0, "one_scaled": 0, "both_scaled": 0},
                                "clean_scale_cases": 0, "unclean_cases": 0, "equal_scaled_cases": 0, "add_sub_overflow_cases": 0,
                                "chrono_narrowed_cases": 0, "au_ub_cases": 0, "nonfinite_result_cases": 0,
                                "accept_true": 0, "accept_false": 0}, []
    if kind == "op":
        a, b = mk(r["a"], 0), mk(r["b"], 1)
        side, spell = shape_parts(r["shape"])
        pr = {"id": 0, "a": a, "b": b, "side": side, "spell": spell}
        if r.get("special"):
            files = write_value_harness(wd, [a, b], [dict(pr, vals=[])], 1)
            exe, err = build(wd, files, compiler, std, "rp", opt="-O0")
            if exe is None:
                print("replay: harness does not build:\n", err["output"][-2000:])
                print(f"VIOLATION property={PROP} replay={path} no-failing-input-found")
                return 1
            ans, _ = run_lines(exe, [f"O 0 {r['x1']} {r['x2']}"], shards=1)
            print("impl  :", ans[0])
            sp = lambda rep, x: x if x in ("nan", "inf", "-inf", "-0x0p+0") else parse_cxx(rep, x)
            check_op_special(pr, sp(a["rep"], r["x1"]), sp(b["rep"], r["x2"]), kv(ans[0]), " ".join(cfg), viol, stats, )
            for v in viol:
                print(" -", v["what"])
            if viol:
                print(f"VIOLATION property={PROP} replay={path}")
                return 1
            print("replay: property holds on this case")
            return 0
        x1 = int(r["x1"]) if is_int(a["rep"]) else Fraction(r["x1"])
        x2 = int(r["x2"]) if is_int(b["rep"]) else Fraction(r["x2"])
        req = (f"c17ops {model_shape(r['shape'])} {a['rep']} {a['n']} {a['d']} {r['x1']} {b['rep']} {b['n']} {b['d']} {r['x2']}")
        mline = drv.ask([req])[0]
        print("model :", mline)
        if kv(mline).get("compiles") != "ok":
            print("replay: the model says this mixed operation is ill-formed in Au")
            return 1
        pr["vals"] = [(x1, x2)]
        files = write_value_harness(wd, [a, b], [pr], 1)
        exe, err = build(wd, files, compiler, std, "rp")
        if exe is None:
            print("replay: harness does not build:\n", err["output"][-2000:])
            print(f"VIOLATION property={PROP} replay={path} no-failing-input-found")
            return 1
        ans, _ = run_lines(exe, [f"O 0 {to_cxx(a['rep'], x1)} {to_cxx(b['rep'], x2)}"], shards=1)
        print("impl  :", ans[0])
        clean, want = oracle_ops(a["rep"], (a["n"], a["d"]), x1, b["rep"], (b["n"], b["d"]), x2)
        print("oracle: clean_scale =", clean, {k: str(v) for k, v in want.items()})
        check_op(pr, x1, x2, kv(ans[0]), mline, " ".join(cfg), viol, stats, samples, set())
    elif kind == "rt":
        t = mk(f"{r['rep']}:{r['period']}", 0)
        files = write_value_harness(wd, [t], [], 1)
        exe, err = build(wd, files, compiler, std, "rp")
        if exe is None:
            print("replay: harness does not build:\n", err["output"][-2000:])
            print(f"VIOLATION property={PROP} replay={path} no-failing-input-found")
            return 1
        ans, _ = run_lines(exe, [f"I 0", f"R 0 {r['count']}"], shards=1)
        print("impl  :", ans[0], "\n       ", ans[1])
        m = kv(drv.ask([f"c17corr {t['rep']} {t['n']} {t['d']}"])[0])
        check_type_info(t, m, kv(ans[0]), " ".join(cfg), viol, stats, samples)
        check_rt(t, r["count"], kv(ans[1]), {}, {}, " ".join(cfg), viol, stats, samples)
    elif kind == "type":
        t = mk(f"{r['rep']}:{r['period']}", 0)
        files = write_value_harness(wd, [t], [], 1)
        exe, err = build(wd, files, compiler, std, "rp")
        if exe is None:
            print("replay: harness does not build:\n", err["output"][-2000:])
            print(f"VIOLATION property={PROP} replay={path} no-failing-input-found")
            return 1
        ans, _ = run_lines(exe, ["I 0"], shards=1)
        print("impl  :", ans[0])
        m = kv(drv.ask([f"c17corr {t['rep']} {t['n']} {t['d']}"])[0])
        print("model :", m)
        check_type_info(t, m, kv(ans[0]), " ".join(cfg), viol, stats, samples)
    elif kind == "accept":
        t, s = mk(r["target"], 0), mk(r["source"], 1)
        m = kv(drv.ask([f"c17accept {t['rep']} {t['n']} {t['d']} {s['rep']} {s['n']} {s['d']}"])[0])
        print("model :", m)
        files = write_accept_harness(wd, [t, s], [(0, 1)], 1)
        exe, err = build(wd, files, compiler, std, "rp", san=False)
        if exe is None:
            print("impl  : the traits are ill-formed (hard error)\n", err["output"][-1500:])
            print(f"VIOLATION property={PROP} replay={path} no-failing-input-found")
            return 1
        rc, out, _ = run([exe])
        print("impl  :", out.strip())
        check_accept(t, s, kv(out.strip()), m, " ".join(cfg), viol, stats, samples)
    elif kind in ("pair", "opaccept"):
        if kind == "opaccept":
            print("probe : is this expression accepted?  ", r.get("expression"))
        a, b = mk(r["a"], 0), mk(r["b"], 1)
        side, spell = shape_parts(r.get("shape", "cd"))
        pr = {"id": 0, "a": a, "b": b, "side": side, "spell": spell, "vals": []}
        sc = model_shape(side_code_of(pr))
        z = lambda rep: "0"
        pr["model"] = kv(drv.ask([f"c17ops {sc} {a['rep']} {a['n']} {a['d']} 0 {b['rep']} {b['n']} {b['d']} 0"])[0])
        print("model :", pr["model"])
        files = write_value_harness(wd, [a, b], [pr], 1)
        exe, err = build(wd, files, compiler, std, "rp")
        if exe is None:
            print("impl  : does not compile\n", err["output"][-1500:])
            bad = pr["model"]["compiles"] == "ok"
            if bad:
                print(f"VIOLATION property={PROP} replay={path} no-failing-input-found")
            return 1 if bad else 0
        ans, _ = run_lines(exe, ["J 0"], shards=1)
        print("impl  :", ans[0])
        check_pair_info(pr, kv(ans[0]), " ".join(cfg), viol, stats)
    else:
        print("replay: this record names a broken obligation or a build/probe failure:", rec.get("broken"), rec.get("what"))
        return 1
    if viol:
        concrete = [v for v in viol if not v.get("no_input")]
        for v in viol:
            print(" -", v["what"])
        print(f"VIOLATION property={PROP} replay={path}" + ("" if concrete else " no-failing-input-found"))
        return 1
    print("replay: property holds on this case")
    return 0

"""C18 — printed labels denote the actual unit."""
import json
import os
import re
import time
from fractions import Fraction

import aulib
import uexpr
from vlib import UBSAN_ENV, Driver, cxx, finish, kv, pmap, prove, rng_for, run, workdir

PROP = "C18"
ASSUME = [
    "the order of factors inside a product label follows the library's unit order; model and implementation labels are compared after "
    "sorting the factors at every bracket level, and independently *parsed* by the documented grammar back into (dimension, magnitude)",
    "labels of CommonUnit/CommonPointUnit ('EQUIV{...}') are checked by the grammar-independent clauses only (size, NUL, determinism)",
]

PRELUDE = '''#include <cstdint>
#include <cstdio>
#include <cstring>
#include <sstream>
#include <string>
#include "au/au.hh"
#include "au/io.hh"
#include "au/prefix.hh"
%s
using au::pow; using au::root;
#define UT(...) au::AssociatedUnitT<std::decay_t<decltype(__VA_ARGS__)>>
static std::string hex(const char* s, size_t n) { static const char* d = "0123456789abcdef"; std::string r; for (size_t i = 0; i < n; ++i) { r += d[(unsigned char)s[i] >> 4]; r += d[(unsigned char)s[i] & 15]; } return r; }
template <typename U> void lab(int i) {
    const auto& l = au::unit_label(U{});
    size_t sz = sizeof(l); size_t len = std::strlen(l);
    const auto& l2 = au::unit_label(U{});
    printf("L %%d label=%%s size=%%zu len=%%zu nul=%%d same=%%d\\n", i, hex(l, len).c_str(), sz, len, int(l[sz - 1] == 0), int(std::strcmp(l, l2) == 0));
}
'''


def hexs(s):
    return s.encode().hex() or "-"


def canon(s):
    """Sort ' * '-separated factors at every bracket level (product order is order-dependent)."""
    def split_top(t, sep):
        parts, depth, cur, i = [], 0, "", 0
        while i < len(t):
            c = t[i]
            if c in "([{":
                depth += 1
            elif c in ")]}":
                depth -= 1
            if depth == 0 and t.startswith(sep, i):
                parts.append(cur)
                cur = ""
                i += len(sep)
                continue
            cur += c
            i += 1
        parts.append(cur)
        return parts

    def norm(t):
        qs = split_top(t, " / ")
        outq = []
        for q in qs:
            inner = q
            wrapped = False
            if inner.startswith("(") and inner.endswith(")") and len(split_top(inner[1:-1], " * ")) > 1 and _balanced(inner[1:-1]):
                inner = inner[1:-1]
                wrapped = True
            fs = split_top(inner, " * ")
            fs = sorted(normf(f) for f in fs)
            j = " * ".join(fs)
            outq.append("(" + j + ")" if wrapped else j)
        return " / ".join(outq)

    def normf(f):
        if f.startswith("["):
            # [mag label] with possibly '^exp' after the closing bracket
            depth = 0
            for i, c in enumerate(f):
                if c == "[":
                    depth += 1
                elif c == "]":
                    depth -= 1
                    if depth == 0:
                        break
            body, tail = f[1:i], f[i + 1:]
            if body.startswith("("):
                j = body.index(")") + 1
            else:
                j = body.index(" ") if " " in body else len(body)
            return "[" + body[:j] + " " + norm(body[j + 1:]) + "]" + tail
        return f
    return norm(s)


def _balanced(t):
    d = 0
    for c in t:
        if c in "([":
            d += 1
        elif c in ")]":
            d -= 1
            if d < 0:
                return False
    return d == 0


class Parser:
    """Parse a label by the documented grammar back into exact (dim, mag); returns None if the label contains an unlabeled marker."""

    def __init__(self, by_label):
        self.by_label = by_label

    def split_top(self, t, sep):
        parts, depth, cur, i = [], 0, "", 0
        while i < len(t):
            c = t[i]
            if c in "([":
                depth += 1
            elif c in ")]":
                depth -= 1
            if depth == 0 and t.startswith(sep, i):
                parts.append(cur)
                cur = ""
                i += len(sep)
                continue
            cur += c
            i += 1
        parts.append(cur)
        return parts

    def unit(self, s):
        if "UNLABELED" in s:
            return None
        if s == "":
            return {}, {}
        qs = self.split_top(s, " / ")
        if len(qs) > 2:
            raise ValueError("two top-level slashes: " + s)
        num = self.product(qs[0]) if qs[0] != "1" else ({}, {})
        if len(qs) == 1:
            return num
        # a denominator of several factors must be parenthesised ("W / (m * K)"); without parentheses the usual reading applies:
        # "W / m * K" is (W / m) * K
        dfs = self.split_top(qs[1], " * ")
        if len(dfs) > 1:
            den = self.factor(dfs[0])
            for extra in dfs[1:]:
                ed, em = self.factor(extra)
                num = (uexpr.add(num[0], ed), uexpr.add(num[1], em))
        else:
            den = self.product(qs[1])
        return uexpr.add(num[0], den[0], -1), uexpr.add(num[1], den[1], -1)

    def product(self, s):
        if s.startswith("(") and s.endswith(")") and _balanced(s[1:-1]) and len(self.split_top(s[1:-1], " * ")) > 1:
            s = s[1:-1]
        d, m = {}, {}
        for f in self.split_top(s, " * "):
            fd, fm = self.factor(f)
            d, m = uexpr.add(d, fd), uexpr.add(m, fm)
        return d, m

    def factor(self, f):
        # base^exp at top level
        depth, pos = 0, -1
        for i, c in enumerate(f):
            if c in "([":
                depth += 1
            elif c in ")]":
                depth -= 1
            elif c == "^" and depth == 0:
                pos = i
        if pos >= 0:
            base, e = f[:pos], f[pos + 1:]
            e = e.strip("()")
            q = Fraction(int(e.split("/")[0]), int(e.split("/")[1])) if "/" in e else Fraction(int(e))
            bd, bm = self.base(base)
            return uexpr.scalep(bd, q), uexpr.scalep(bm, q)
        return self.base(f)

    def base(self, b):
        if b.startswith("["):
            body = b[1:-1]
            if body.startswith("("):
                j = body.index(")") + 1
                n, dd = body[1:j - 1].split(" / ")
                k = Fraction(int(n), int(dd))
            else:
                j = body.index(" ")
                k = Fraction(int(body[:j]))
            inner = self.unit(body[j + 1:])
            from p_c07 import frac_to_mag
            return inner[0], uexpr.add(inner[1], frac_to_mag(k))
        if b not in self.by_label:
            raise ValueError("unknown label " + repr(b))
        return self.by_label[b]


def main(tier, seed):
    t0 = time.time()
    wd = workdir(PROP)
    rng = rng_for(PROP, seed)
    proof = prove(PROP)
    A = uexpr.Atoms(wd, rng, n_prefixed=20)
    inc = "\n".join(f'#include "{h}"' for h in A.headers())
    violations = []
    # label sources of the library units, from the header text
    own = {u["name"]: u["declares_label"] for u in A.units}
    # generated named structs: with own label, unlabeled on an unlabeled base, and deriving from labeled/scaled units without a label
    gens = [
        ("GOwn", "struct GOwn : decltype(au::Meters{} * au::mag<7>()) { static constexpr const char label[] = \"gown\"; };\nconstexpr const char GOwn::label[];",
         {"d-99": Fraction(1)}, {"p7": Fraction(1)}, ("own", "gown")),
        ("GBare", "struct GBareBase : au::UnitImpl<au::Time> {}; struct GBare : decltype(GBareBase{} * au::mag<3>()) {};",
         {"d-97": Fraction(1)}, {"p3": Fraction(1)}, ("none", None)),
        ("GInhScaled", "struct GInhScaled : decltype(au::Seconds{} * au::mag<60>() / au::mag<7>()) {};",
         {"d-97": Fraction(1)}, {"p2": Fraction(2), "p3": Fraction(1), "p5": Fraction(1), "p7": Fraction(-1)}, ("inh", ("Seconds", {"p2": Fraction(2), "p3": Fraction(1), "p5": Fraction(1), "p7": Fraction(-1)}))),
        ("GInhNamed", "struct GInhNamed : au::Grams {};", dict(A.atoms["Grams"]["dim"]), dict(A.atoms["Grams"]["mag"]), ("inh", ("Grams", None))),
    ]
    gdefs = "\n".join(g[1] for g in gens)
    for j, (name, _, d, m, src) in enumerate(gens):
        A.atoms[name] = {"id": 3000 + j, "dim": d, "mag": m, "has_origin": False, "label": None, "cxx_unit": f"{name}{{}}", "cxx_type": name,
                         "cxx_maker": None, "cxx_symbol": None, "prefix": None, "base": name, "gen_src": src}
    # label entries for the model
    def entry(key):
        a = A.atoms[key]
        if "gen_src" in a:
            kind, arg = a["gen_src"]
            if kind == "own":
                return f"{a['id']} own {hexs(arg)}"
            if kind == "none":
                return f"{a['id']} none -"
            base, mag = arg
            return f"{a['id']} inh {A.atoms[base]['id']}|{aulib.pack_str(mag, 'mag') if mag else '-'}"
        if a["prefix"]:
            return f"{a['id']} own {hexs(a['prefix']['symbol'] + A.atoms[a['base']]['label'])}"
        if own.get(key, True):
            return f"{a['id']} own {hexs(a['label'])}"
        # a library struct without its own label: find what it derives from (Rankines : Kelvins * 5/9)
        u = [x for x in A.units if x["name"] == key][0]
        m = re.match(r"decltype\((\w+)\{\}\s*(.*)\)", u["definition"])
        base = m.group(1)
        rel = uexpr.add(a["mag"], A.atoms[base]["mag"], -1)
        return f"{a['id']} inh {A.atoms[base]['id']}|{aulib.pack_str(rel, 'mag') if rel else '-'}"
    # trees: C02's generator + extra scalings by every integer class
    big_scales = [({"p2": 64 - 1}, "au::pow<63>(au::mag<2>())")]
    for k in (2, 9, 10, 99, 100, 12345, 2 ** 31 - 1, 2 ** 32, 10 ** 18, 2 ** 64 - 1, 18446744073709551557, 999999999999):
        from p_c07 import frac_to_mag
        big_scales.append((frac_to_mag(Fraction(k)), f"au::mag<{k}ull>()"))
    big_scales.append((frac_to_mag(Fraction(2 ** 61 - 1, 10 ** 9 + 7)), "(au::mag<2305843009213693951ull>() / au::mag<1000000007ull>())"))
    big_scales.append(({"p2": Fraction(70)}, "au::pow<70>(au::mag<2>())"))      # beyond uintmax_t: unsupported label
    ntrees = 220 if tier == "quick" else 2500
    trees = []
    gen_keys = [g[0] for g in gens]
    while len(trees) < ntrees:
        pool = uexpr.twin_free_pool(rng, A, rng.choice([3, 5, 8]))
        if rng.random() < 0.3:
            pool = pool + [rng.choice(gen_keys)]
            sigs = [A.sig(k) for k in pool]
            if len(set(sigs)) != len(sigs):
                continue
        r = rng.random()
        if r < 0.25:
            t = ("scale", ("atom", rng.choice(pool)), rng.choice(big_scales))
        elif r < 0.35:
            t = ("atom", rng.choice(pool))
        else:
            t = uexpr.gen_tree(rng, A, rng.randrange(1, 4), pool)
        if uexpr.size(t) <= 25:
            trees.append(t)
    nchunks = max(16, -(-len(trees) // 14))      # bounded translation units: ~14 cases per TU in every tier
    configs = [("g++", "c++14"), ("clang++-14", ["c++14", "c++17", "c++20"][seed % 3])]
    results = {}
    stats = {"trees": len(trees), "configs": [], "labels_parsed": 0, "unlabeled_or_unsupported": 0, "itoa_args": 0, "stream_cases": 0,
             "compile_failures": 0}
    for ci, (compiler, std) in enumerate(configs):
        cfg = f"{compiler} -std={std}"
        stats["configs"].append(cfg)
        sel = list(range(len(trees))) if ci == 0 or tier == "thorough" else sorted(rng.sample(range(len(trees)), min(60, len(trees))))

        def build(k):
            ids = [i for i in sel if i % nchunks == k]
            if not ids:
                return ids, 0, "", ""
            src = os.path.join(wd, f"l{ci}_{k}.cc")
            with open(src, "w") as f:
                f.write(PRELUDE % inc + gdefs + "\nint main() {\n")
                for i in ids:
                    f.write(f"  lab<UT({uexpr.cxx(trees[i], A, 'unit')})>({i});\n")
                f.write("  return 0;\n}\n")
            exe = os.path.join(wd, f"l{ci}_{k}")
            rc, out = cxx(src, exe, compiler=compiler, std=std, san=True, opt="-O0")
            if rc != 0:
                return ids, rc, out, ""
            rc2, o, e = run([exe], env=UBSAN_ENV)
            return ids, 0, e if "ERROR: AddressSanitizer" in e else "", o
        for ids, rc, out, o in pmap(build, range(nchunks)):
            if rc != 0:
                stats["compile_failures"] += 1
                diag = "broken-ordering" if "Broken strict total ordering" in out else "other"
                violations.append({"what": f"label harness chunk does not compile under {cfg} [{diag}]", "class": "build", "no_input": True,
                                   "broken": "harness", "rec": {"kind": "build", "errors": [l for l in out.split("\n") if "error" in l][:3]}})
                continue
            if out:
                violations.append({"what": "AddressSanitizer report while reading unit labels", "class": "asan", "rec": {"kind": "asan", "out": out[-800:]}})
            for line in o.split("\n"):
                if line.startswith("L "):
                    results.setdefault(int(line.split()[1]), {})[cfg] = kv(line)
    drv = Driver()
    req = []
    for t in trees:
        keys = sorted(set(uexpr.atoms_of(t)))
        extra = set()
        for k in keys:
            a = A.atoms[k]
            if "gen_src" in a and a["gen_src"][0] == "inh":
                extra.add(a["gen_src"][1][0])
            elif not a["prefix"] and "gen_src" not in a and not own.get(k, True):
                u = [x for x in A.units if x["name"] == k][0]
                extra.add(re.match(r"decltype\((\w+)\{\}", u["definition"]).group(1))
        allk = sorted(set(keys) | extra)
        req.append(f"label {len(allk)} " + " ".join(entry(k) for k in allk) + " " + uexpr.sexpr(t, A))
    ans = drv.ask(req)
    by_label = {}
    for k, a in A.atoms.items():
        lbl = a["label"] if "gen_src" not in a else (a["gen_src"][1] if a["gen_src"][0] == "own" else None)
        if lbl and lbl != "[UNLABELED UNIT]" and own.get(k, True) and "gen_src" not in a or (lbl and "gen_src" in a):
            by_label.setdefault(lbl, (a["dim"], a["mag"]))
    # symbols that two different units share (prefix + symbol concatenation: Nano<Miles> "nmi" = NauticalMiles "nmi",
    # Milli<Inches> "min" = Minutes "min"): the printed label then IS the label of a unit of another magnitude (finding F26)
    meanings = {}
    for k, a in A.atoms.items():
        lbl = a["label"] if "gen_src" not in a else (a["gen_src"][1] if a["gen_src"][0] == "own" else None)
        if lbl and lbl != "[UNLABELED UNIT]":
            meanings.setdefault(lbl, set()).add(A.sig(k))
    ambiguous = {l for l, sg in meanings.items() if len(sg) > 1}
    stats["ambiguous_labels"] = sorted(ambiguous)
    parser = Parser(by_label)
    samples = []
    evaluations = 0
    for i, t in enumerate(trees):
        m = kv(ans[i])
        d, mg = uexpr.sem(t, A)
        shown = uexpr.show(t)
        for cfg, r in results.get(i, {}).items():
            evaluations += 1
            label = bytes.fromhex(r["label"]).decode() if r["label"] != "-" else ""
            mlabel = bytes.fromhex(m["label"]).decode() if m.get("label", "-") not in ("-", "") else ""
            base = {"config": cfg, "tree": shown, "label": label}
            if len(samples) < 6 and uexpr.size(t) > 2:
                samples.append({"tree": shown, "label": label, "model": mlabel, "size": r["size"]})
            if int(r["size"]) != int(r["len"]) + 1 or r["nul"] != "1" or r["same"] != "1":
                violations.append({"what": f"label of {shown}: reported size {r['size']} != length {r['len']} + 1, or not NUL-terminated / not deterministic",
                                   "class": "size", "rec": dict(base, kind="size", impl=r)})
            # grammar oracle: the label, parsed back, denotes the unit
            try:
                parsed = parser.unit(label)
            except Exception as e:      # noqa: BLE001
                violations.append({"what": f"label {label!r} of {shown} does not follow the documented grammar ({e})", "class": "grammar",
                                   "rec": dict(base, kind="grammar")})
                parsed = None
            if parsed is None:
                stats["unlabeled_or_unsupported"] += 1
                # a labelled unit scaled by a rational whose numerator and denominator both fit uintmax_t must show their exact digits:
                # the generic marker is reserved for factors that no 64-bit integer pair can spell
                if t[0] == "scale" and t[1][0] == "atom" and "UNLABELED SCALE FACTOR" in label and "UNLABELED UNIT" not in label:
                    sm = {b: Fraction(e) for b, e in t[2][0].items()}
                    if sm and all(b != "pi" and e.denominator == 1 for b, e in sm.items()):
                        num = den = 1
                        for b, e in sm.items():
                            if e > 0:
                                num *= int(b[1:]) ** int(e)
                            else:
                                den *= int(b[1:]) ** int(-e)
                        if num < 2 ** 64 and den < 2 ** 64:
                            stats["scale_digits_demanded"] = stats.get("scale_digits_demanded", 0) + 1
                            violations.append({"what": f"the label {label!r} of {shown} hides the scale factor {num}/{den} behind the generic marker although "
                                                       "numerator and denominator fit 64 bits: integer scale factors must appear as their exact digits",
                                               "class": "scale-digits", "rec": dict(base, kind="scale-digits", num=str(num), den=str(den))})
            else:
                stats["labels_parsed"] += 1
                if parsed[0] != d or parsed[1] != mg:
                    inh = [k for k in uexpr.atoms_of(t) if ("gen_src" in A.atoms[k] and A.atoms[k]["gen_src"][0] == "inh" and A.atoms[k]["gen_src"][1][1])
                           or (k in own and not own[k])]
                    violations.append({"what": f"the label {label!r} printed for {shown} denotes a unit of different magnitude/dimension",
                                       "class": "foreign-label", "rec": dict(base, kind="foreign", inherits_from_scaled=bool(inh), units=sorted(set(inh)),
                                                                          shared_symbol=sorted({A.atoms[k]["label"] for k in uexpr.atoms_of(t)
                                                                                                if A.atoms[k].get("label") in ambiguous}))})
            if canon(label) != canon(mlabel) or int(m.get("size", -1)) != int(r["size"]):
                violations.append({"what": f"model and implementation print different labels for {shown}", "class": "corr", "no_input": True,
                                   "broken": "correspondence: U.label", "rec": dict(base, kind="corr", model=mlabel, model_size=m.get("size"), impl_size=r["size"])})
    # --- labels of CommonUnitT / CommonPointUnitT: "EQUIV{a, b, ...}" where every item is a label of the SAME unit (the common
    # unit written as a multiple of each distinct unscaled input), or a single ordinary label; judged by the exact gcd magnitude
    by_dim = {}
    for k in A.atoms:
        if "gen_src" not in A.atoms[k] and own.get(k, True):
            by_dim.setdefault(tuple(sorted(A.atoms[k]["dim"].items())), []).append(k)
    dgroups = [g for g in by_dim.values() if len({A.sig(k) for k in g}) >= 2]
    com_cases = []
    while dgroups and len(com_cases) < (36 if tier == "quick" else 300):
        g = rng.choice(dgroups)
        n = rng.choice([2, 2, 3])
        ks = []
        for k in rng.sample(g, min(len(g), n)):
            if A.sig(k) not in [A.sig(x) for x in ks]:
                ks.append(k)
        if len(ks) < 2:
            continue
        items = [("atom", k) if rng.random() < 0.6 else ("scale", ("atom", k), rng.choice(uexpr.SCALES[:6])) for k in ks]
        point = all(not A.atoms[k]["has_origin"] for k in ks) is False and rng.random() < 0.5
        if not point and any(A.atoms[k]["has_origin"] for k in ks) and rng.random() < 0.5:
            point = True
        com_cases.append((items, point))
    if com_cases:
        csrc = os.path.join(wd, "common_labels.cc")
        with open(csrc, "w") as f:
            f.write(PRELUDE % inc + gdefs + "\nint main() {\n")
            for i, (items, point) in enumerate(com_cases):
                tl = ", ".join(f"UT({uexpr.cxx(t, A, 'unit')})" for t in items)
                f.write(f"  lab<au::{'CommonPointUnitT' if point else 'CommonUnitT'}<{tl}>>({i});\n")
            f.write("  return 0;\n}\n")
        rc, out = cxx(csrc, os.path.join(wd, "common_labels"), san=True, opt="-O0")
        if rc != 0:
            diag = "broken-ordering" if "Broken strict total ordering" in out else "other"
            violations.append({"what": f"common-unit label harness does not compile [{diag}]", "class": "build-common", "no_input": True, "broken": "harness",
                               "rec": {"kind": "build", "errors": [l for l in out.split("\n") if "error" in l][:3]}})
        else:
            o = run([os.path.join(wd, "common_labels")], env=UBSAN_ENV)[1]
            stats["common_unit_labels"] = 0
            stats["common_unit_equiv_labels"] = 0
            for line in o.split("\n"):
                if not line.startswith("L "):
                    continue
                i = int(line.split()[1])
                r = kv(line)
                items, point = com_cases[i]
                label = bytes.fromhex(r["label"]).decode() if r["label"] != "-" else ""
                shown = ("CommonPointUnitT<" if point else "CommonUnitT<") + ", ".join(uexpr.show(t) for t in items) + ">"
                sems = [uexpr.sem(t, A) for t in items]
                bases = set().union(*[set(m) for _, m in sems])
                want_m = {b: min(Fraction(m.get(b, 0)) for _, m in sems) for b in bases}
                want_m = {b: e for b, e in want_m.items() if e != 0}
                want_d = {b: Fraction(e) for b, e in sems[0][0].items()}
                stats["common_unit_labels"] += 1
                base = {"tree": shown, "label": label}
                if int(r["size"]) != int(r["len"]) + 1 or r["nul"] != "1" or r["same"] != "1":
                    violations.append({"what": f"label of {shown}: reported size {r['size']} != length {r['len']} + 1, or not NUL-terminated / not deterministic",
                                       "class": "size-common", "rec": dict(base, kind="size", impl=r)})
                if point and any(A.atoms[k]["has_origin"] for t in items for k in uexpr.atoms_of(t)):
                    continue        # the common POINT unit's magnitude also depends on the origin displacements (C10); size clause only
                parts = [label]
                if label.startswith("EQUIV{") and label.endswith("}"):
                    parts = Parser(by_label).split_top(label[6:-1], ", ")
                    stats["common_unit_equiv_labels"] += 1
                    if len(parts) < 2:
                        violations.append({"what": f"label {label!r} of {shown}: EQUIV{{}} with fewer than two members", "class": "grammar-common",
                                           "rec": dict(base, kind="grammar")})
                for part in parts:
                    try:
                        parsed = parser.unit(part)
                    except Exception as e:      # noqa: BLE001
                        violations.append({"what": f"label {label!r} of {shown} does not follow the documented grammar ({e})", "class": "grammar-common",
                                           "rec": dict(base, kind="grammar", part=part)})
                        continue
                    if parsed is None:
                        continue
                    pd = {b: Fraction(e) for b, e in parsed[0].items() if Fraction(e) != 0}
                    pm = {b: Fraction(e) for b, e in parsed[1].items() if Fraction(e) != 0}
                    if pd != {b: e for b, e in want_d.items() if e != 0} or pm != want_m:
                        violations.append({"what": f"the label {part!r} printed inside {label!r} for {shown} denotes a unit of different magnitude/dimension "
                                                   f"than the common unit", "class": "foreign-label-common",
                                           "rec": dict(base, kind="foreign-common", part=part,
                                                       shared_symbol=sorted({A.atoms[k]["label"] for t in items for k in uexpr.atoms_of(t)
                                                                             if A.atoms[k].get("label") in ambiguous}))})
    # --- IToA / UIToA on boundary and random 64-bit arguments
    uargs = sorted({0, 1, 9, 10, 11, 99, 100, 2 ** 31, 2 ** 32 - 1, 2 ** 63 - 1, 2 ** 63, 2 ** 64 - 1, 10 ** 19, 10 ** 18 - 1} |
                   {rng.randrange(0, 2 ** 64) for _ in range(60)} | {10 ** k for k in range(20)} | {10 ** k - 1 for k in range(1, 20)})
    iargs = sorted({0, 1, -1, 9, -9, 10, -10, 2 ** 63 - 1, -(2 ** 63 - 1), 10 ** 18, -10 ** 18} | {rng.randrange(-(2 ** 63) + 1, 2 ** 63) for _ in range(60)})
    isrc = os.path.join(wd, "itoa.cc")
    with open(isrc, "w") as f:
        f.write(PRELUDE % inc + "int main() {\n")
        for n in uargs:
            f.write(f'  {{ const auto& a = au::detail::UIToA<{n}ull>::value.char_array(); printf("U {n} %s %zu\\n", hex(a, sizeof(a)).c_str(), sizeof(a)); }}\n')
        for n in iargs:
            lit = f"{n}ll" if n > -(2 ** 63) else "(-9223372036854775807ll - 1)"
            f.write(f'  {{ const auto& a = au::detail::IToA<{lit}>::value.char_array(); printf("I {n} %s %zu\\n", hex(a, sizeof(a)).c_str(), sizeof(a)); }}\n')
        f.write("  return 0;\n}\n")
    rc, out = cxx(isrc, os.path.join(wd, "itoa"), san=True, opt="-O0")
    if rc != 0:
        violations.append({"what": "IToA/UIToA harness does not compile", "class": "itoa-build", "no_input": True, "broken": "harness", "rec": {"kind": "build", "out": out[-1500:]}})
    else:
        o = run([os.path.join(wd, "itoa")], env=UBSAN_ENV)[1]
        mans = drv.ask([f"uitoa {n}" for n in uargs] + [f"itoa {n}" for n in iargs])
        lines = [l for l in o.split("\n") if l]
        for line, ma in zip(lines, mans):
            kind, n, hx, size = line.split()
            raw = bytes.fromhex(hx)          # the whole char array, terminator included
            txt = raw[:-1].decode("latin-1") if raw.endswith(b"\0") else raw.decode("latin-1")
            stats["itoa_args"] += 1
            if raw != str(int(n)).encode() + b"\0" or int(size) != len(str(int(n))) + 1:
                violations.append({"what": f"{'UIToA' if kind == 'U' else 'IToA'}<{n}> prints {txt!r} with size {size}", "class": "itoa",
                                   "rec": {"kind": "itoa", "n": n, "got": txt, "size": size}})
            if ma != f"{txt} size={size}":
                violations.append({"what": f"model and implementation differ on IToA<{n}>", "class": "corr-itoa", "no_input": True, "broken": "uitoa_spec / driver",
                                   "rec": {"kind": "corr", "n": n, "model": ma, "impl": line}})
    # --- streaming: value, one space, label; 8-bit reps print digits
    ssrc = os.path.join(wd, "stream.cc")
    # every rep at its limits as well (a streamed value must be the stored number: uint32_t above INT_MAX, int8_t as a number, ...)
    rv = [("char", "65", "65"), ("char", "48", "48"), ("signed char", "-5", "-5"), ("unsigned char", "200", "200"),   # plain char is a third 8-bit type
          ("int8_t", "65", "65"), ("int8_t", "-128", "-128"), ("int8_t", "127", "127"), ("uint8_t", "200", "200"), ("uint8_t", "255", "255"),
          ("int16_t", "-7", "-7"), ("int16_t", "-32768", "-32768"), ("int16_t", "32767", "32767"), ("uint16_t", "7", "7"), ("uint16_t", "65535", "65535"),
          ("int32_t", "-5", "-5"), ("int32_t", "(-2147483647 - 1)", "-2147483648"), ("int32_t", "2147483647", "2147483647"),
          ("uint32_t", "5", "5"), ("uint32_t", "2147483648u", "2147483648"), ("uint32_t", "4000000000u", "4000000000"), ("uint32_t", "4294967295u", "4294967295"),
          ("int64_t", "-123456789012", "-123456789012"), ("int64_t", "(-9223372036854775807ll - 1)", "-9223372036854775808"),
          ("int64_t", "9223372036854775807ll", "9223372036854775807"), ("uint64_t", "9223372036854775808ull", "9223372036854775808"),
          ("uint64_t", "18446744073709551615ull", "18446744073709551615"), ("float", "1.5f", "1.5"), ("double", "-2.25", "-2.25"), ("long double", "0.125L", "0.125")]
    v32 = rng.randrange(2 ** 31, 2 ** 32)
    v64 = rng.randrange(2 ** 63, 2 ** 64)
    rv += [("uint32_t", f"{v32}u", str(v32)), ("uint64_t", f"{v64}ull", str(v64))]
    reps = [(a, b) for a, b, _ in rv]
    expect = [c for _, _, c in rv]
    skeys = rng.sample([k for k in A.atoms if "gen_src" not in A.atoms[k]], 4)
    with open(ssrc, "w") as f:
        f.write(PRELUDE % inc + "int main() {\n")
        for k in skeys:
            for (ct, v) in reps:
                f.write(f'  {{ std::ostringstream os; os << au::make_quantity<{A.atoms[k]["cxx_type"]}>(static_cast<{ct}>({v})); printf("S|%s|%s\\n", os.str().c_str(), au::unit_label({A.atoms[k]["cxx_unit"]})); }}\n')
                # QuantityPoint streams as "@(<displacement from the unit's own zero point>)" through the same operator
                f.write(f'  {{ std::ostringstream os; os << au::make_quantity_point<{A.atoms[k]["cxx_type"]}>(static_cast<{ct}>({v})); printf("T|%s|%s\\n", os.str().c_str(), au::unit_label({A.atoms[k]["cxx_unit"]})); }}\n')
        f.write("  return 0;\n}\n")
    rc, out = cxx(ssrc, os.path.join(wd, "stream"), san=True, opt="-O0")
    if rc != 0:
        violations.append({"what": "stream harness does not compile", "class": "stream-build", "no_input": True, "broken": "harness", "rec": {"kind": "build", "out": out[-1500:]}})
    else:
        lines = [l for l in run([os.path.join(wd, "stream")], env=UBSAN_ENV)[1].split("\n") if l.startswith("S|") or l.startswith("T|")]
        for j, line in enumerate(lines):
            kind, txt, lbl = line.split("|")
            stats["stream_cases"] += 1
            r_ = reps[(j // 2) % len(reps)]
            want = expect[(j // 2) % len(reps)] + " " + lbl
            if kind == "T":
                want = "@(" + want + ")"
            if txt != want:
                violations.append({"what": f"streaming a {r_[0]} {'quantity point' if kind == 'T' else 'quantity'} of value {r_[1]} prints {txt!r}, expected {want!r}",
                                   "class": "stream", "rec": {"kind": "stream", "rep": r_[0], "value": r_[1], "got": txt, "want": want, "point": kind == "T"}})
    coverage = {"evaluations": evaluations + stats["itoa_args"] + stats["stream_cases"], "distinct_nontrivial": len(results),
                "rule": "case = unit expression (C02's tree generator over library/prefixed units, generated named structs with own / inherited / no "
                        "label, scalings by integers of every size class up to 2^64-1, rationals, unsupported factors, negative and fractional "
                        "exponents); label read at run time under ASan; parsed back by the documented grammar into exact (dim, mag)",
                "samples": samples, "distribution": stats}
    return finish(PROP, tier, seed, t0, proof, coverage, violations, ASSUME)


def replay(path):
    rec = json.load(open(path))
    print(json.dumps(rec.get("rec"), indent=1))
    return 1

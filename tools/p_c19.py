"""C19 — ZERO is the exact zero of every unit.

Lean side: AuModel.Zero (executable model of zero.hh, Quantity(Zero), the same-type hidden friends,
the deleted QuantityPoint(Zero)); theorems AuProofs.C19; driver commands `c19 ...`.

Correspondence (every run, real headers of vlib.REPO, public API, ASan+UBSan):
  * value harness: every library unit + seed-generated units x the 11 reps.  For each instance
      - D line: result reps of q±ZERO / ZERO+q, unit preserved, a constexpr evaluation of the property,
        std::is_constructible / is_convertible / is_assignable of Quantity and QuantityPoint from Zero;
      - S line: exhaustive sweep of every 8/16-bit value (32-bit ints and every float bit pattern in the
        thorough tier) compared in-process with (a) the certificate of the Lean model, (b) the
        compiler's own `x op 0` / `0 op x` / `x + 0` (the right-hand sides of the statement, literally)
        and (c) an exact table over the sign class computed from the representation;
      - P lines: boundary + random values (all widths, NaN/inf/-0.0/subnormals) compared line by line
        with the Lean driver and with an exact Python oracle (big ints / Fractions);
      - Q lines: the same-type friends on pairs of arbitrary values vs the model (validates the model
        of quantity.hh:249-265 beyond the ZERO column; model-only comparison);
  * A lines: ZERO -> every arithmetic type and -> chrono durations (many reps x periods) in eight
    syntactic contexts;
  * probes: one -fsyntax-only TU per (site, unit, rep) supplying ZERO where a QuantityPoint is required;
    each must be rejected with the deleted-constructor diagnostic (the model's verdict), while the twin
    TU with a genuine point in place of ZERO must compile.
"""
import json
import os
import time
from fractions import Fraction

import c19_harness as H
from vlib import (AU_INC, CONFIGS, REPO, UBSAN_ENV, Driver, cxx, finish, kv, link_cmd, pmap, prove, rng_for, run,
                  workdir)

PROP = "C19"
ASSUME = [
    "same-width distinct C++ types (long / long long, char / signed char ...) are identified with the model's rep of "
    "that width and signedness; bool is checked as 'converts to false'",
    "IEEE-754 round-to-nearest arithmetic of the build target (x86-64: SSE float/double, x87 long double); NaN sign "
    "and payload are not modelled (a NaN result is only required to be a NaN)",
    "the literal clause `(q + ZERO) == q` is false for NaN in any IEEE arithmetic (Au.C19_add_eq_counterexample); "
    "for NaN the check requires `q ± ZERO` to be NaN, i.e. the same as `q.in(u) ± 0`",
    "the model of overload resolution is the gate table of AuModel.Zero.convertZero/binop, validated only by the "
    "compile probes of this run",
]
# Genuine defects of /repo found by this check and not yet in known_findings.json would be listed here
# as narrow structural matches on the replay record (never a whole class).  None so far.
PENDING_FINDINGS = []

INT_INFO = {"i8": (8, True), "u8": (8, False), "i16": (16, True), "u16": (16, False), "i32": (32, True),
            "u32": (32, False), "i64": (64, True), "u64": (64, False)}
FLT_INFO = {"f32": (24, 8, 8), "f64": (53, 11, 16), "f80": (64, 15, 20)}   # precision, exponent bits, hex digits
OPN = ["eq", "ne", "lt", "le", "gt", "ge"]
INIT_SITES = ["copyInit", "directInit", "braceInit", "assign", "argument", "returnValue", "staticCast",
              "copyInit read by in(maker)", "copyInit read by in<Rep>(u)", "default member initialiser", "array element",
              "aggregate member"]


def ilo(r):
    b, s = INT_INFO[r]
    return -(1 << (b - 1)) if s else 0


def ihi(r):
    b, s = INT_INFO[r]
    return (1 << (b - 1)) - 1 if s else (1 << b) - 1


def promote(r):
    return "i32" if INT_INFO[r][0] < 32 else r


# ----------------------------------------------------------------------------------------------
# floats: bit patterns <-> exact values
# ----------------------------------------------------------------------------------------------

def fdecode(rep, hx):
    """hex bit pattern -> ('nan',) | ('inf', neg) | ('fin', neg, m, e)   (value = ±m·2^e, exact)."""
    p, eb, nd = FLT_INFO[rep]
    v = int(hx, 16)
    if rep == "f80":
        se, mant = v >> 64, v & ((1 << 64) - 1)
        neg, ex = bool(se >> 15), se & 0x7fff
        if ex == 0x7fff:
            return ("inf", neg) if (mant << 1) & ((1 << 64) - 1) == 0 else ("nan",)
        if ex == 0:
            return ("fin", neg, mant, -16382 - 63)
        return ("fin", neg, mant, ex - 16383 - 63)
    fb = p - 1
    neg = bool(v >> (fb + eb))
    ex = (v >> fb) & ((1 << eb) - 1)
    fr = v & ((1 << fb) - 1)
    bias = (1 << (eb - 1)) - 1
    if ex == (1 << eb) - 1:
        return ("inf", neg) if fr == 0 else ("nan",)
    if ex == 0:
        return ("fin", neg, fr, 1 - bias - fb)
    return ("fin", neg, fr | (1 << fb), ex - bias - fb)


def fcanon(d):
    """canonical form: odd mantissa (zero: m = 0, e = 0)."""
    if d[0] != "fin":
        return d
    _, neg, m, e = d
    if m == 0:
        return ("fin", neg, 0, 0)
    while m % 2 == 0:
        m //= 2
        e += 1
    return ("fin", neg, m, e)


def fmodel(d):
    """driver syntax of a decoded value."""
    if d[0] == "nan":
        return "nan"
    if d[0] == "inf":
        return "-inf" if d[1] else "inf"
    d = fcanon(d)
    return f"{'-' if d[1] else '+'},{d[2]},{d[3]}"


def fparse_model(s):
    if s == "nan":
        return ("nan",)
    if s == "inf":
        return ("inf", False)
    if s == "-inf":
        return ("inf", True)
    sg, m, e = s.split(",")
    return fcanon(("fin", sg == "-", int(m), int(e)))


def fexact(d):
    """exact extended-real value: None for NaN, ('inf', ±1), or a Fraction."""
    if d[0] == "nan":
        return None
    if d[0] == "inf":
        return ("inf", -1 if d[1] else 1)
    _, neg, m, e = d
    v = Fraction(m) * (Fraction(2) ** e)
    return -v if neg else v


def sign_of(exact):
    if exact is None:
        return None
    if isinstance(exact, tuple):
        return exact[1]
    return (exact > 0) - (exact < 0)


def fbits(rep, neg, ex, frac):
    """assemble a bit pattern from fields (f80: frac is the full 64-bit significand)."""
    p, eb, nd = FLT_INFO[rep]
    if rep == "f80":
        return "%04x%016x" % ((int(neg) << 15) | ex, frac)
    fb = p - 1
    return "%0*x" % (nd, (int(neg) << (fb + eb)) | (ex << fb) | frac)


def float_points(rng, rep, n):
    """boundary-directed (every guard of the model: m = 0, sign, qmin, 2^prec, emax, inf, nan) + random."""
    p, eb, nd = FLT_INFO[rep]
    emaxf = (1 << eb) - 1
    fb = p - 1
    pts = []

    def norm(neg, ex, frac):
        # f80 has an explicit integer bit, set exactly for normal numbers, infinities and NaNs
        if rep == "f80":
            return fbits(rep, neg, ex, (frac & ((1 << 63) - 1)) | ((1 << 63) if ex != 0 else 0))
        return fbits(rep, neg, ex, frac & ((1 << fb) - 1))
    fmask = (1 << (63 if rep == "f80" else fb)) - 1
    bias = (1 << (eb - 1)) - 1
    for neg in (False, True):
        pts += [norm(neg, 0, 0), norm(neg, 0, 1), norm(neg, 0, 2), norm(neg, 0, fmask), norm(neg, 0, fmask - 1),
                norm(neg, 1, 0), norm(neg, 1, 1), norm(neg, bias, 0), norm(neg, bias, 1), norm(neg, bias, fmask),
                norm(neg, bias - 1, fmask), norm(neg, bias + 1, 0), norm(neg, emaxf - 1, fmask), norm(neg, emaxf - 1, 0),
                norm(neg, emaxf - 1, fmask - 1), norm(neg, emaxf, 0),
                norm(neg, emaxf, 1 << ((63 if rep == "f80" else fb) - 1)),               # quiet NaN
                norm(neg, emaxf, 1), norm(neg, emaxf, fmask),                            # signalling / payload NaNs
                norm(neg, bias - p, 0), norm(neg, bias + p, 0), norm(neg, bias + p - 1, fmask)]
    for _ in range(n):
        r = rng.random()
        neg = rng.random() < 0.5
        if r < 0.35:
            pts.append(norm(neg, rng.randrange(0, emaxf + 1), rng.getrandbits(64) & fmask))
        elif r < 0.55:
            pts.append(norm(neg, rng.randrange(max(1, bias - 70), min(emaxf, bias + 70)), rng.getrandbits(64) & fmask))
        elif r < 0.70:
            pts.append(norm(neg, 0, rng.getrandbits(64) & fmask >> rng.randrange(0, fb)))          # subnormals
        elif r < 0.80:
            pts.append(norm(neg, rng.choice([1, 2, emaxf - 1, emaxf - 2]), rng.getrandbits(64) & fmask))
        elif r < 0.86:
            pts.append(norm(neg, emaxf, rng.getrandbits(64) & fmask))                              # mostly NaN
        else:
            k = rng.randrange(0, fb)
            pts.append(norm(neg, rng.randrange(1, emaxf), (rng.getrandbits(64) & fmask) >> k << k))  # short mantissas
    out, seen = [], set()
    for x in pts:
        if x not in seen:
            seen.add(x)
            out.append(x)
    return out


def int_points(rng, rep, n):
    lo, hi = ilo(rep), ihi(rep)
    b = INT_INFO[rep][0]
    pts = {lo, lo + 1, lo + 2, -2, -1, 0, 1, 2, hi - 2, hi - 1, hi, hi // 2, hi // 2 + 1, lo // 2}
    for w in (7, 8, 15, 16, 31, 32, 63):
        for d in (-1, 0, 1):
            pts.update({(1 << w) + d, -(1 << w) + d})
    for _ in range(n):
        r = rng.random()
        if r < 0.5:
            pts.add(rng.randrange(lo, hi + 1))
        else:
            v = rng.getrandbits(rng.randrange(1, b + 1))
            pts.add(-v if (lo < 0 and rng.random() < 0.5) else v)
    return sorted(x for x in pts if lo <= x <= hi)


def int_pairs(rng, rep, n):
    lo, hi = ilo(rep), ihi(rep)
    p = promote(rep)
    plo, phi = ilo(p), ihi(p)
    out = [(hi, hi), (lo, lo), (hi, 1), (lo, 1), (0, hi), (hi, lo), (lo, hi), (0, 0), (1, 2)]
    if lo < 0:
        out += [(lo, -1), (-1, hi), (0, lo)]
    # boundary of the promoted type: a + b, a - b in {limit - 1, limit, limit + 1}
    for lim in (phi, plo):
        for d in (-1, 0, 1):
            a = rng.randrange(lo, hi + 1)
            for b in (lim + d - a, a - (lim + d)):
                if lo <= b <= hi:
                    out.append((a, b))
    nd = len(out)            # everything so far is directed
    for _ in range(n):
        out.append((rng.randrange(lo, hi + 1), rng.randrange(lo, hi + 1)))
        v = rng.getrandbits(rng.randrange(1, INT_INFO[rep][0]))
        w = rng.getrandbits(rng.randrange(1, INT_INFO[rep][0]))
        if lo < 0 and rng.random() < 0.5:
            v = -v
        if lo <= v <= hi and lo <= w <= hi:
            out.append((v, w))
    return out, nd


def float_pairs(rng, rep, n):
    p, eb, nd = FLT_INFO[rep]
    emaxf = (1 << eb) - 1
    fb = 63 if rep == "f80" else p - 1
    fmask = (1 << fb) - 1
    bias = (1 << (eb - 1)) - 1

    def norm(neg, ex, frac):
        if rep == "f80":
            return fbits(rep, neg, ex, (frac & fmask) | ((1 << 63) if ex != 0 else 0))
        return fbits(rep, neg, ex, frac & fmask)
    one, mx, dmin = norm(False, bias, 0), norm(False, emaxf - 1, fmask), norm(False, 0, 1)
    inf, ninf, nan = norm(False, emaxf, 0), norm(True, emaxf, 0), norm(False, emaxf, 1 << (fb - 1))
    half_ulp = norm(False, bias - p, 0)
    out = [(one, one), (mx, mx), (mx, norm(True, emaxf - 1, fmask)), (dmin, dmin), (dmin, norm(True, 0, 1)),
           (inf, ninf), (inf, inf), (nan, one), (one, nan), (one, half_ulp), (norm(False, bias, 1), half_ulp),
           (one, norm(False, bias - p, 1)), (norm(False, 0, 0), norm(True, 0, 0)), (norm(True, 0, 0), norm(True, 0, 0)),
           (mx, norm(False, emaxf - 1 - p, 0)), (mx, norm(False, emaxf - 1 - p, 1)), (norm(False, 1, 0), norm(True, 0, fmask)),
           (one, norm(True, bias - 1, fmask)), (inf, one), (one, ninf)]
    nd = len(out)
    for _ in range(n):
        ea = rng.randrange(0, emaxf)
        eb_ = min(emaxf - 1, max(0, ea + rng.randrange(-p - 3, p + 4)))
        k1, k2 = rng.randrange(0, fb), rng.randrange(0, fb)
        a = norm(rng.random() < 0.5, ea, (rng.getrandbits(64) & fmask) >> k1 << k1)
        b = norm(rng.random() < 0.5, eb_, (rng.getrandbits(64) & fmask) >> k2 << k2)
        out.append((a, b))
    return out, nd


# ----------------------------------------------------------------------------------------------
# harness plumbing
# ----------------------------------------------------------------------------------------------

def build_harness(wd, files, compiler, std, tag, opt, san=True):
    def comp(src):
        obj = src[:-3] + f".{tag}.o"
        # wall-clock value is only a backstop: under machine load > 100 a 12 s-CPU compile has taken > 30 min of wall time
        rc, out = cxx(src, obj, compiler=compiler, std=std, opt=opt, extra=["-c"], san=san, timeout=WALL_BACKSTOP)
        return src, obj, rc, out
    objs = []
    for src, obj, rc, out in pmap(comp, files):
        if rc != 0:
            return None, {"src": src, "output": out[-4000:]}
        objs.append(obj)
    exe = os.path.join(wd, f"harness_{tag}")
    rc, out, err = run(link_cmd(compiler, objs, exe) if san else [compiler] + objs + ["-o", exe])
    if rc != 0:
        return None, {"src": "link", "output": (out + err)[-4000:]}
    return exe, None


WALL_BACKSTOP = 6 * 3600                           # seconds of wall time for any single compile / harness process
CPU_LIMIT = {"quick": 900, "thorough": 14400}      # seconds of CPU per harness process (RLIMIT_CPU, not wall time)
_cpu = [900]


def run_harness(exe, lines, shards=16):
    """Answers in request order (every request yields exactly one line; D and A are handled apart).  A request whose
    evaluation traps is answered by a `T signal=...` line naming it; if a process dies all the same, the unanswered
    requests are answered `T signal=died ...`."""
    if not lines:
        return [], []
    order = sorted(range(len(lines)), key=lambda i: (0 if lines[i][0] == "S" else 1))
    buckets = [[] for _ in range(shards)]
    for k, i in enumerate(order):
        buckets[k % shards].append(i)

    def work(idx):
        if not idx:
            return [], ""
        rc, out, err = run([exe, str(_cpu[0])], inp="\n".join(lines[i] for i in idx) + "\n", env=HENV, timeout=WALL_BACKSTOP)
        res = [l for l in out.split("\n") if l]
        if len(res) < len(idx):
            res += [f"T signal=died rc={rc} request={lines[i]} stderr={err[-300:]!r}".replace("\n", " ") for i in idx[len(res):]]
        return res[:len(idx)], err
    outs = pmap(work, buckets, workers=shards)
    answers = [None] * len(lines)
    errs = []
    for idx, (res, err) in zip(buckets, outs):
        errs.append(err)
        for i, r in zip(idx, res):
            answers[i] = r
    return answers, errs


HENV = dict(UBSAN_ENV, ASAN_OPTIONS="detect_leaks=0:abort_on_error=1:handle_abort=0:handle_segv=0:handle_sigfpe=0:handle_sigill=0")


def run_block(exe, cmd):
    rc, out, err = run([exe, "600"], inp=cmd + "\n", env=HENV, timeout=WALL_BACKSTOP)
    res = [l for l in out.split("\n") if l]
    if rc != 0 or not res or res[-1] != "END":
        raise RuntimeError(f"harness {cmd}: rc={rc}\n{err[-3000:]}")
    return res[:-1], err


# ----------------------------------------------------------------------------------------------
# oracle (statement level, exact arithmetic; independent of the Lean model)
# ----------------------------------------------------------------------------------------------

def cmp_exact(op, s, zero_left=False):
    """x op 0 (or 0 op x) where s is the sign of the exact value of x, None for NaN."""
    if s is None:
        return op == "ne"
    a, b = (0, s) if zero_left else (s, 0)
    return {"eq": a == b, "ne": a != b, "lt": a < b, "le": a <= b, "gt": a > b, "ge": a >= b}[op]


def decode_val(rep, s):
    """harness/driver-independent exact value: ints -> int; floats (hex bits) -> decoded tuple."""
    return int(s) if rep in INT_INFO else fdecode(rep, s)


def exact_of(rep, s):
    return int(s) if rep in INT_INFO else fexact(fdecode(rep, s))


def same_number(rep_a, a, rep_b, b):
    """the two printed values denote the same number (NaN ~ NaN; -0 ~ +0)."""
    ea, eb = exact_of(rep_a, a), exact_of(rep_b, b)
    if ea is None or eb is None:
        return ea is None and eb is None
    return ea == eb


def is_zero_number(rep, s):
    e = exact_of(rep, s)
    return e is not None and not isinstance(e, tuple) and e == 0


def model_val(rep, s):
    return s if rep in INT_INFO else fmodel(fdecode(rep, s))


def model_tok_matches(tok, unit_id, rep, s):
    """driver token `u<id>:<rep>:<val>` vs a harness value of rep `rep`."""
    parts = tok.split(":")
    if len(parts) != 3 or parts[0] != f"u{unit_id}" or parts[1] != rep:
        return False
    if rep in INT_INFO:
        return parts[2] == s
    return fparse_model(parts[2]) == fcanon(fdecode(rep, s))


# ----------------------------------------------------------------------------------------------
# negative probes
# ----------------------------------------------------------------------------------------------

PROBE_SITES = {
    "copyInit": ("site", "void probe() { PT p = C19_ARG; (void)p; }"),
    "directInit": ("site", "void probe() { PT p(C19_ARG); (void)p; }"),
    "braceInit": ("site", "void probe() { PT p{C19_ARG}; (void)p; }"),
    "assign": ("site", "void probe(PT& p) { p = C19_ARG; }"),
    "argument": ("site", "void sink(PT); void probe() { sink(C19_ARG); }"),
    "returnValue": ("site", "PT probe() { return C19_ARG; }"),
    "staticCast": ("site", "void probe() { (void)static_cast<PT>(C19_ARG); }"),
    "memberInit": ("site:copyInit", "struct S { PT p = C19_ARG; }; void probe() { S s; (void)s; }"),
    "zero_sub_pt": ("bin:sub:zp", "auto probe(PT p) -> decltype(C19_ARG - p) { return C19_ARG - p; }"),
    "pt_sub_zero": ("bin:sub:pz", "void probe(PT p) { (void)(p - C19_ARG); }"),
}
PROBE_SITES.update({
    "listAssign": ("site:assign", "void probe(PT& p) { p = {C19_ARG}; }"),
    "aggregate": ("site:copyInit", "struct S { PT p; }; void probe() { S s{C19_ARG}; (void)s; }"),
    "arrayInit": ("site:copyInit", "void probe() { PT a[1] = {C19_ARG}; (void)a; }"),
    # clang words this one "incompatible operand types" (the deleted conversion is no conversion): compiler verdict only
    "conditional": ("oracle:cond", "PT probe(PT p, bool c) { return c ? p : C19_ARG; }"),
    "pushBack": ("site:argument", "#include <vector>\nvoid probe(std::vector<PT>& v) { v.push_back(C19_ARG); }"),
    "defaultArg": ("site:copyInit", "void sink(PT p = C19_ARG); void probe() { sink(); }"),
    # makers: QuantityPointMaker::operator()(T) builds QuantityPoint<U, Zero>; rejected by IsValidRep (rep.hh), which the
    # model does not cover: judged by the compiler's verdict only
    "maker_pt": ("oracle:rep", "void probe() { (void)au::make_quantity_point<U>(C19_ARG); }", "R{}"),
    "maker_obj_pt": ("oracle:rep", "void probe() { (void)au::QuantityPointMaker<U>{}(C19_ARG); }", "R{}"),
})
for _o, _sym in zip(OPN, H.OPS):
    PROBE_SITES[f"pt_{_o}_zero"] = (f"bin:{_o}:pz", f"bool probe(PT p) {{ return p {_sym} C19_ARG; }}")
    PROBE_SITES[f"zero_{_o}_pt"] = (f"bin:{_o}:zp", f"bool probe(PT p) {{ return C19_ARG {_sym} p; }}")

ALLOW = {
    # gcc: "use of deleted function '...QuantityPoint(au::Zero)...'"; clang: "... invokes a deleted function",
    # "call to deleted constructor of ...", "static_cast ... uses deleted function", with a note quoting the declaration
    "deleted": [r"deleted (function|constructor)"],
    "ambiguous": [r"ambiguous overload for .operator-.", r"use of overloaded operator '-' is ambiguous"],
}
DELETED_DECL = ["QuantityPoint(au::Zero)", "QuantityPoint(Zero) = delete"]
ORACLE_ONLY = {"rep": r"Rep must meet our requirements for a rep",
               "cond": r"deleted (function|constructor)|incompatible operand types"}


def probe_src(unit, rep, site, control):
    inc = "\n".join(f'#include "{h}"' for h in H.unit_headers())
    body = PROBE_SITES[site][1]
    ctl = PROBE_SITES[site][2] if len(PROBE_SITES[site]) > 2 else "au::make_quantity_point<U>(R{})"
    return (f'#include "au/au.hh"\n{inc}\n#include <cstdint>\n{unit.get("pre", "")}'
            f'using U = {unit["expr"]}; using R = {H.CTYPE[rep]}; using PT = au::QuantityPoint<U, R>;\n'
            + (f"#define C19_ARG ({ctl})\n" if control else "#define C19_ARG au::ZERO\n")
            + body + "\n")


def model_probe_request(site, uid, rep):
    kind = PROBE_SITES[site][0]
    z = "0" if rep in INT_INFO else "+,0,0"
    if kind == "site":
        return f"c19 site {site} point {uid} {rep}"
    if kind.startswith("site:"):
        return f"c19 site {kind.split(':')[1]} point {uid} {rep}"
    if kind.startswith("oracle:"):
        return "c19 cert i8"        # placeholder request (keeps answers aligned); the model has no verdict for these sites
    _, op, side = kind.split(":")
    pt = f"pt:{uid}:{rep}:{z}"
    return f"c19 bin {op} {pt} zero" if side == "pz" else f"c19 bin {op} zero {pt}"


def classify_rejection(out):
    """Which reason the compiler gave: 'deleted' / 'ambiguous' / None (something else), and whether every
    error line is explained by that reason."""
    import re
    errs = [l for l in out.split("\n") if re.search(r"\berror:", l)]
    if not errs:
        return None, errs
    for why, pats in ALLOW.items():
        if all(any(re.search(p, l) for p in pats) for l in errs):
            if why == "deleted" and not any(d in out for d in DELETED_DECL):
                continue
            return why, errs
    return None, errs


# ----------------------------------------------------------------------------------------------
# the run
# ----------------------------------------------------------------------------------------------

class Violations(list):
    """Keeps at most CAP records per class (a broken tree fails on millions of inputs); counts the rest."""
    CAP = 8

    def __init__(self):
        super().__init__()
        self.counts = {}

    def append(self, v):
        k = v.get("class") or v["what"]
        self.counts[k] = self.counts.get(k, 0) + 1
        if self.counts[k] <= self.CAP:
            super().append(v)


def choose_units(rng, tier):
    lib = H.library_units()
    units = [{"kind": "library", "expr": "au::" + u, "pre": "", "name": u} for u, _ in lib]
    units += H.directed_units()
    units += H.gen_units(rng, lib, 11 if tier == "quick" else 60)      # at least one of each of the 11 kinds
    return units


LIGHT_UNITS = ("au::UnitProductT<>", "decltype(au::Inches{} * au::mag<12>())", "au::Milli<au::Seconds>", "au::Celsius")


def is_directed(u):
    """the units every configuration (all six compiler x standard pairs + the exact-count build) sees in every run"""
    return u["expr"] in LIGHT_UNITS


def explore(tier, seed, rng, wd):
    t0 = time.time()
    drv = Driver()
    violations = Violations()
    units = choose_units(rng, tier)
    insts = []
    for ui in range(len(units)):
        for r in H.REPS:
            insts.append({"id": len(insts), "u": ui, "rep": r})
    by_id = {i["id"]: i for i in insts}
    periods = H.gen_periods(rng, 4 if tier == "quick" else 12)
    certs = {r: kv(a) for r, a in zip(H.REPS, drv.ask([f"c19 cert {r}" for r in H.REPS]))}

    # configurations: g++ c++14 (ASan+UBSan) carries the full instance set; "exact" = clang++-14 with the exact-count
    # UBSan handlers (every undefined operation / unsigned wrap of every input is counted) on a seed-chosen sixth
    # (quick) / third (thorough); thorough adds the five other compiler x standard configurations
    others = [c for c in CONFIGS if c != ("g++", "c++14")]
    std2 = ["c++14", "c++17", "c++20"][seed % 3]
    # stride 0 = "light": the directed units only, directed values only, no sanitizer — every other compiler x standard
    # in every quick run (C++20 reversed candidates, g++ vs clang)
    if tier == "quick":
        configs = [("g++", "c++14", 1, "-O0"), ("exact", std2, 8, "-O0")] + [c + (0, "-O0") for c in others] + \
                  [("exact", s_, 0, "-O0") for s_ in ("c++14", "c++17", "c++20") if s_ != std2]      # UB verdicts under every standard
    else:
        configs = [("g++", "c++14", 1, "-O1"), ("exact", std2, 3, "-O1")] + \
                  [c + (1 if c[0].startswith("clang") and c[1] == "c++17" else 3, "-O1") for c in others]
    _cpu[0] = CPU_LIMIT[tier]
    stats = {"units": len(units), "unit_kinds": {}, "instances": len(insts), "configs": [], "sweeps": 0,
             "sweep_values": 0, "sweep_classes": {"neg": 0, "zero": 0, "pos": 0, "nan": 0}, "points": 0, "pairs": 0,
             "pairs_model_ub": 0, "point_classes": {"neg": 0, "zero": 0, "pos": 0, "nan": 0, "inf": 0, "subnormal": 0,
                                                    "negzero": 0},
             "desc_lines": 0, "conv_lines": 0, "neg_probes": 0, "control_probes": 0, "probe_sites": {},
             "sanitizer_reports": 0, "reps": {r: 0 for r in H.REPS}, "timing": {}}
    for u in units:
        stats["unit_kinds"][u["kind"]] = stats["unit_kinds"].get(u["kind"], 0) + 1
    samples = []
    distinct = set()
    npts = 24 if tier == "quick" else 120
    npairs = 3 if tier == "quick" else 12

    def vrec(ins, cfg, **kw):
        u = units[ins["u"]]
        return dict({"kind": "value", "unit": u["expr"], "unit_pre": u.get("pre", ""), "unit_kind": u["kind"],
                     "rep": ins["rep"], "config": cfg}, **kw)

    # units of the point grid: the probes' directed list (origins, unitless, equivalent-typed, chrono counterpart)
    gnames = ["au::Celsius", "au::Fahrenheit", "au::Kelvins", "decltype(au::Celsius{} * au::mag<2>())", "au::UnitProductT<>",
              "au::Unos", "au::Meters", "decltype(au::Inches{} * au::mag<12>())", "au::Milli<au::Seconds>"]
    punits = [(i, u) for n in gnames for i, u in enumerate(units) if u["expr"] == n]
    punits += [(i, u) for i, u in enumerate(units) if u["kind"] == "user-struct"][:1]
    _grid_units.update({i: u["expr"] for i, u in punits})
    # build every configuration concurrently, then run them one after the other
    def prepare(c):
        compiler, std, stride, opt = c
        tag = {"g++": "g", "exact": "x"}.get(compiler, "c") + std[-2:] + ("l" if stride == 0 else "")
        if stride == 1:
            sub = insts
        elif stride == 0:
            sub = [i for i in insts if is_directed(units[i["u"]])]
        else:       # the directed units always, plus a seed-chosen fraction of the rest
            sub = [i for i in insts if is_directed(units[i["u"]]) or (i["u"] + H.REPS.index(i["rep"]) + seed) % stride == 0]
        cwd = os.path.join(wd, tag)
        os.makedirs(cwd, exist_ok=True)
        tb = time.time()
        # first the trait matrix (always compiles): which (target type, context) accept ZERO under this configuration;
        # the value harness is generated from the fully accepted targets only, the others are judged from the matrix
        rows, merr = conv_matrix(cwd, compiler, std, periods, punits)
        at, dt = accepted_targets(rows, periods) if rows is not None else (None, None)
        cfiles = H.write_harness(cwd, units, sub, periods, nchunks=(16 if stride == 1 else 3 if stride == 0 else 8),
                                 arith_types=at, dur_targets=dt)
        exe, err = build_harness(cwd, cfiles, compiler, std, tag, opt, san=(stride != 0 or compiler == "exact"))
        return tag, sub, exe, err, round(time.time() - tb, 1), rows, merr
    built = pmap(prepare, configs, workers=len(configs))
    for ci, ((compiler, std, stride, opt), (tag, sub, exe, err, tcomp, rows, merr)) in enumerate(zip(configs, built)):
        cfg = f"{compiler} -std={std}"
        if rows is None:
            violations.append({"what": f"the ZERO-conversion trait matrix does not compile under {cfg}", "class": "matrix-build",
                               "no_input": True, "broken": "harness: SFINAE trait matrix", "rec": {"kind": "build", "config": cfg},
                               "detail": merr})
        else:
            check_matrix(rows, drv, cfg, violations, stats)
        light = stride == 0
        exact = compiler == "exact"
        stats["timing"]["compile_" + tag] = tcomp
        tb = time.time()
        if exe is None:
            violations.append({
                "what": f"harness does not compile under {cfg}: an expression mixing ZERO and a quantity that the model "
                        f"accepts (q op ZERO, q ± ZERO, Quantity = ZERO, ZERO -> arithmetic/duration) is rejected",
                "class": "harness-build", "rec": {"kind": "build", "config": cfg}, "no_input": True,
                "broken": "correspondence: AuModel.Zero.convertZero / binop accept what the compiler rejects", "detail": err})
            continue
        stats["configs"].append(f"{cfg} {opt} ({len(sub)} instances)" +
                                (" [clang++-14, exact-count UBSan handlers]" if exact else "") +
                                (" [light: directed units x directed values" + ("" if exact else ", no sanitizer") + "]" if light else ""))
        # ---- D lines -------------------------------------------------------------------------
        dl, _ = run_block(exe, "D")
        for l in dl:
            d = kv(l)
            ins = by_id[int(l.split()[1])]
            rep = ins["rep"]
            stats["desc_lines"] += 1
            want_sum = promote(rep) if rep in INT_INFO else rep          # oracle: decltype(Rep ± Rep) per the C++ standard
            m = certs[rep]
            if not (d["sumrep"] == d["difrep"] == d["zsumrep"] == m["sumrep"]):
                violations.append({"what": f"rep of q ± ZERO differs from the model ({d['sumrep']}/{d['difrep']}/{d['zsumrep']} vs {m['sumrep']})",
                                   "class": "corr-desc", "no_input": True, "broken": "correspondence: sum rep",
                                   "rec": vrec(ins, cfg, observable="sumrep", impl=l, model=m["sumrep"])})
            bad = []
            if d["sumrep"] != want_sum or d["difrep"] != want_sum or d["zsumrep"] != want_sum or d["unit_same"] != "1":
                bad.append("q ± ZERO is not Quantity<Unit, decltype(Rep ± Rep)>")
            if d["ce"] != "1":
                bad.append("constexpr: Quantity{ZERO} == ZERO, .in(u) == 0, !(< ZERO), !(> ZERO), + ZERO == ZERO does not hold")
            if (d["qc"], d["qv"], d["qa"]) != ("1", "1", "1"):
                bad.append("Quantity is not constructible / convertible / assignable from Zero")
            if (d["pc"], d["pv"], d["pa"]) != ("0", "0", "0"):
                bad.append("QuantityPoint is constructible / convertible / assignable from Zero")
            for b in bad:
                violations.append({"what": f"{b} for unit {units[ins['u']]['expr']} rep {rep}", "class": "type-" + b[:24],
                                   "rec": vrec(ins, cfg, observable="types", impl=l, expected=b)})
        # ---- A lines -------------------------------------------------------------------------
        al, aerr = run_block(exe, "A")
        check_conv(al, drv, cfg, violations, stats, samples)
        # ---- S / P / Q lines -----------------------------------------------------------------
        lines = []
        meta = []
        sweep32 = {"i32": 0, "u32": 0, "f32": 0}
        for ins in sub:
            rep = ins["rep"]
            c = certs[rep]
            cert = " ".join(c[k].replace("/", "") for k in ("neg", "zero", "pos", "nan"))
            if rep in INT_INFO and INT_INFO[rep][0] <= 16:
                lines.append(f"S {ins['id']} {ilo(rep)} {ihi(rep)} {cert}")
                meta.append(("S", ins, None))
            elif tier == "thorough" and ci == 0 and rep in sweep32 and sweep32[rep] < 1 and (ins["u"] * 7 + seed) % 5 == 0:
                # one instance per 32-bit rep: every int32 value, every float bit pattern; for uint32 the three
                # regions around 0, 2^31 and 2^32 (the signed/unsigned confusion boundaries), 2^29 values each
                sweep32[rep] += 1
                if rep == "i32":
                    ranges = [(ilo(rep), ihi(rep))]
                elif rep == "f32":
                    ranges = [(0, (1 << 32) - 1)]
                else:
                    ranges = [(0, (1 << 29) - 1), ((1 << 31) - (1 << 28), (1 << 31) + (1 << 28) - 1),
                              ((1 << 32) - (1 << 29), (1 << 32) - 1)]
                pieces = 16 // len(ranges)
                for lo, hi in ranges:
                    step = (hi - lo + 1) // pieces
                    for k in range(pieces):
                        lines.append(f"S {ins['id']} {lo + k * step} {lo + (k + 1) * step - 1 if k < pieces - 1 else hi} {cert}")
                        meta.append(("S", ins, None))
            np_ = 0 if light else npts
            pts = int_points(rng, rep, np_) if rep in INT_INFO else float_points(rng, rep, np_)
            if rep in INT_INFO and INT_INFO[rep][0] <= 16:
                keep = [x for x in pts if x in (ilo(rep), -1, 0, 1, ihi(rep))]          # directed, every run
                pts = keep + rng.sample(pts, min(len(pts), 3))
            for x in pts:
                lines.append(f"P {ins['id']} {x}")
                meta.append(("P", ins, x))
        # pairs: ask the model first (never execute an addition the model calls UB)
        preq, pmeta = [], []
        for ins in sub:
            rep = ins["rep"]
            prs, nd = int_pairs(rng, rep, npairs) if rep in INT_INFO else float_pairs(rng, rep, npairs)
            # the whole directed list (type limits, promoted-type overflow boundary ±1, ties, cancellation, inf - inf, NaN,
            # signed zeros) for the directed units and a seed-rotated eighth of the others in EVERY run and configuration;
            # for the remaining instances a rotating window of the directed list plus random pairs
            if is_directed(units[ins["u"]]) or ins["u"] % 8 == seed % 8:
                prs = prs[:nd] + ([] if light else rng.sample(prs[nd:], min(len(prs) - nd, npairs)))
            elif light:
                prs = []
            else:
                k0 = (ins["u"] * 5 + H.REPS.index(rep) + seed) % max(1, nd)
                prs = [prs[(k0 + j) % nd] for j in range(min(nd, npairs + 1))] + rng.sample(prs[nd:], min(len(prs) - nd, npairs + 1))
            for a, b in prs:
                preq.append(f"c19 pair {ins['u']} {rep} {model_val(rep, str(a))} {model_val(rep, str(b))}")
                pmeta.append((ins, str(a), str(b)))
        pans = drv.ask(preq)
        for (ins, a, b), ma in zip(pmeta, pans):
            m = kv(ma)
            if "add" not in m:
                violations.append({"what": "driver rejected a pair request", "class": "corr-driver", "no_input": True,
                                   "broken": "driver protocol", "rec": {"kind": "corr", "request": [ins["rep"], a, b], "answer": ma}})
                continue
            da, ds = int(m["add"] != "ub"), int(m["sub"] != "ub")
            stats["pairs_model_ub"] += (1 - da) + (1 - ds)
            lines.append(f"Q {ins['id']} {a} {b} {da} {ds}")
            meta.append(("Q", ins, (a, b, m, ma)))
        answers, errs = run_harness(exe, lines)
        # clang's full runtime also reports UNSIGNED wrap (not UB): a + b on arbitrary unsigned pairs (Q lines) wraps by design and
        # C19 promises nothing there, so only genuine UB reports count in the non-exact builds
        nrep = sum(1 for e in errs for l in e.split("\n") if "runtime error" in l and "unsigned integer overflow" not in l)
        stats["sanitizer_reports"] += nrep
        nasan = sum(e.count("AddressSanitizer") for e in errs)
        if (nrep and not exact) or nasan:
            # full UBSan runtimes report a location once per process and g++ never calls the hook: no per-input verdict
            # from these builds; every request of this harness is modelled UB-free (signed Q additions are executed only
            # when the model says they do not overflow; unsigned wrap is not reported by these builds)
            first = next((l for e in errs for l in e.split("\n") if ("runtime error" in l and "unsigned integer overflow" not in l)
                          or "AddressSanitizer" in l), "")
            violations.append({"what": f"sanitizer report in the {cfg} build while evaluating expressions with ZERO: {first[:200]}",
                               "class": "sanitizer-" + tag, "no_input": True, "broken": "UB-freedom (input identified only by the exact build)",
                               "rec": {"kind": "build", "config": cfg, "report": first[:400]}})
        with open(os.path.join(wd, f"stderr_{tag}.txt"), "w") as ef:
            ef.write("\n".join(errs))
        # model answers for the P lines
        mreq = [f"c19 eval {ins['u']} {ins['rep']} {model_val(ins['rep'], str(x))}" for k, ins, x in meta if k == "P"]
        mans = iter(drv.ask(mreq))
        xans = iter(drv.ask([q.replace("c19 eval", "c19 extra", 1) for q in mreq]))
        for (k, ins, x), a in zip(meta, answers):
            rep = ins["rep"]
            if a.startswith("T "):
                if k == "P":
                    next(mans)
                    next(xans)
                xs = x if k == "P" else (a.split("curx=")[1].split()[0] if "curx=" in a else "?")
                if k == "S" and rep == "f32" and xs.lstrip("-").isdigit():
                    xs = sweep_x(rep, xs)
                violations.append({"what": f"trap while evaluating expressions with ZERO ({a.split()[1]}): unit {units[ins['u']]['expr']}, "
                                           f"rep {rep}, input {xs if k != 'Q' else x[:2]}", "class": f"trap-{rep}",
                                   "rec": vrec(ins, cfg, x=str(xs) if k != "Q" else "0", observable="trap", impl=a[:400])})
                continue
            if k == "S":
                r = kv(a)
                stats["sweeps"] += 1
                stats["sweep_values"] += int(r["n"])
                stats["reps"][rep] += int(r["n"])
                for c in ("neg", "zero", "pos", "nan"):
                    stats["sweep_classes"][c] += int(r[c])
                distinct.add((ins["u"], rep))
                if len(samples) < 2:
                    samples.append({"harness": a})
                if int(r["cert_mismatch"]):
                    violations.append({"what": f"model certificate and implementation comparisons differ at x={r['first_cm']}",
                                       "class": "corr-cert", "no_input": True, "broken": "correspondence: C19_compare certificate",
                                       "rec": vrec(ins, cfg, x=r["first_cm"], count=int(r["cert_mismatch"]), observable="cmp")})
                for key, first, what, obs in (
                        ("oracle_mismatch", "first_om", "a comparison with ZERO differs from the exact comparison of the value with 0", "cmp"),
                        ("raw_mismatch", "first_rm", "(q op ZERO) != (q.in(u) op 0), or q ± ZERO differs from q.in(u) ± 0, as computed by the compiler", "stmt"),
                        ("value_mismatch", "first_vm", "q + ZERO, q - ZERO or ZERO + q is not the number q", "add"),
                        ("init_mismatch", "first_im", "a quantity initialised from ZERO does not read back as 0", "init"),
                        ("ub", "first_ub", "sanitizer report (UB / unsigned wrap) while evaluating expressions with ZERO", "ub")):
                    if int(r[key]) and (key != "ub" or exact):
                        xs = r[first]
                        violations.append({"what": f"{what}: unit {units[ins['u']]['expr']}, rep {rep}, x={xs}",
                                           "class": f"oracle-{obs}-{rep}", "rec": vrec(ins, cfg, x=sweep_x(rep, xs), observable=obs,
                                                                                      count=int(r[key]))})
            elif k == "P":
                ma = next(mans)
                xa = next(xans)
                stats["points"] += 1
                stats["reps"][rep] += 1
                check_point(ins, units, cfg, str(x), a, ma, violations, stats, vrec, exact=exact, extra=xa)
                distinct.add((ins["u"], rep))
                if len(samples) < 10 and rep in ("f32", "i64", "f80", "u8") and stats["points"] % 97 == 1:
                    samples.append({"request": f"c19 eval {ins['u']} {rep} {model_val(rep, str(x))}", "model": ma, "harness": a})
            else:
                stats["pairs"] += 1
                if kv(a).get("ub", "0") != "0" and not INT_INFO.get(promote(rep) if rep in INT_INFO else "", (0, True))[1]:
                    # observation, not a violation: a + b / a - b on two arbitrary unsigned quantities wraps (defined
                    # behaviour; C19 promises nothing about it) and the exact-count build reports it
                    stats["pair_unsigned_wrap_reports"] = stats.get("pair_unsigned_wrap_reports", 0) + 1
                check_pair(ins, units, cfg, x, a, violations, vrec)
        stats["timing"]["run_" + tag] = round(time.time() - tb, 1)
    # ---- negative probes ---------------------------------------------------------------------
    tb = time.time()
    run_probes(tier, seed, rng, wd, units, drv, violations, stats, samples)
    stats["timing"]["probes"] = round(time.time() - tb, 1)
    total = stats["sweep_values"] + stats["points"] + stats["pairs"] + stats["conv_lines"] + stats["neg_probes"] + stats["desc_lines"]
    coverage = {
        "evaluations": total,
        "distinct_nontrivial": len(distinct),
        "rule": "case = (unit, rep, value) evaluated through 12 comparisons with ZERO, q+ZERO, q-ZERO, ZERO+q, point+ZERO and "
                "7 initialisation forms; units = every struct of au/units/*.hh + seed-generated scaled/prefixed/product/"
                "quotient/power/root/common/user-defined units; reps = the 11 arithmetic reps; values: all 8/16-bit "
                "(thorough: all 32-bit ints and all float bit patterns for sampled instances), model-guard boundaries + "
                "random for wider ints and floats incl. NaN/inf/-0.0/subnormals. distinct_nontrivial counts distinct "
                "(unit, rep) instances; evaluations counts values + pairs + conversion lines + type lines + probes",
        "samples": samples,
        "exhaustive": False,
        "distribution": stats,
        "violation_counts": violations.counts,
        "explore_s": round(time.time() - t0, 2),
    }
    return coverage, violations


def sweep_x(rep, xs):
    """value of a sweep index as the P-line syntax (floats: hex bit pattern)."""
    return xs if rep in INT_INFO else "%08x" % int(xs)


def check_point(ins, units, cfg, x, a, ma, violations, stats, vrec, exact=False, extra=None):
    rep = ins["rep"]
    r = kv(a)
    m = kv(ma)
    srep = promote(rep) if rep in INT_INFO else rep
    ex = exact_of(rep, x)
    s = sign_of(ex)
    pc = stats["point_classes"]
    pc["nan" if s is None else ("neg", "zero", "pos")[s + 1]] += 1
    if isinstance(ex, tuple):
        pc["inf"] += 1
    if rep not in INT_INFO:
        d = fdecode(rep, x)
        if d[0] == "fin" and d[2] == 0 and d[1]:
            pc["negzero"] += 1
        if d[0] == "fin" and d[2] != 0 and d[2] < (1 << (FLT_INFO[rep][0] - 1)):
            pc["subnormal"] += 1
    diffs = []
    if "qz" not in m:
        # the oracle below is evaluated all the same
        violations.append({"what": "driver rejected a value the harness holds", "class": "corr-driver", "no_input": True,
                           "broken": "driver protocol / Val.wf", "rec": vrec(ins, cfg, x=x, model=ma)})
        m = {"qz": r["qz"], "zq": r["zq"], "add": "", "sub": "", "zadd": "", "init": ":"}
        extra = None
    # --- correspondence: model vs implementation, observable by observable -------------------
    if r["qz"] != m["qz"]:
        diffs.append("qz")
    if r["zq"] != m["zq"]:
        diffs.append("zq")
    if r["qt"] != m["qz"] or r["tq"] != m["zq"]:        # the value category / spelling of the Zero operand is immaterial
        diffs.append("qt/tq")
    for key in ("add", "sub", "zadd"):
        if not model_tok_matches(m[key], ins["u"], srep, r[key]):
            diffs.append(key)
    for key in ("padd", "zpadd"):      # point + ZERO: the model's value is that of q + ZERO converted back to Rep
        if not same_bits_or_nan(rep, r[key], x, allow_negzero_flip=True):
            diffs.append(key)
    if extra is not None:
        # the additive entry points (AuModel.Zero: compoundWithZero, inViaMaker/inRepExplicit/dataIn, pointPlusZero, ZERO - q)
        xm = kv(extra)
        if "pe" not in xm:
            diffs.append("extra:" + extra[:40])
        else:
            for key in ("pe", "me", "padd", "zpadd"):
                if not model_tok_matches(xm[key], ins["u"], rep, r[key]):
                    diffs.append(key)
            for key in ("inm", "inr", "ind"):
                if not model_tok_matches(f"u{ins['u']}:" + xm[key], ins["u"], rep, r[key]):
                    diffs.append(key)
            if r["zsub"] != "-":
                if xm["zsub"] == "ub" or not model_tok_matches(xm["zsub"], ins["u"], srep, r["zsub"]):
                    diffs.append("zsub")
            stats["extra_lines"] = stats.get("extra_lines", 0) + 1
    inits = r["init"].split(",")
    mi = m["init"].split(":")
    for v in inits:
        if mi[0] != rep or (v != mi[1] if rep in INT_INFO else fparse_model(mi[1]) != fcanon(fdecode(rep, v))):
            diffs.append("init")
            break
    if diffs:
        violations.append({"what": f"model and implementation differ on {','.join(diffs)} at x={x}", "class": "corr-point",
                           "no_input": True, "broken": "correspondence: c19 eval line protocol",
                           "rec": vrec(ins, cfg, x=x, model=ma, impl=a, observable=",".join(diffs))})
    # --- oracle: the statement, in exact arithmetic -------------------------------------------
    bad = []
    for k, op in enumerate(OPN):
        if (r["qz"][k] == "1") != cmp_exact(op, s):
            bad.append((f"q {H.OPS[k]} ZERO", cmp_exact(op, s), r["qz"][k] == "1"))
        if (r["zq"][k] == "1") != cmp_exact(op, s, zero_left=True):
            bad.append((f"ZERO {H.OPS[k]} q", cmp_exact(op, s, zero_left=True), r["zq"][k] == "1"))
    for k, op in enumerate(OPN):
        if (r["qt"][k] == "1") != cmp_exact(op, s):
            bad.append((f"q {H.OPS[k]} Zero{{}} / named Zero object", cmp_exact(op, s), r["qt"][k] == "1"))
        if (r["tq"][k] == "1") != cmp_exact(op, s, zero_left=True):
            bad.append((f"Zero{{}} / named Zero object {H.OPS[k]} q", cmp_exact(op, s, zero_left=True), r["tq"][k] == "1"))
    if r["qz"] != r["rqz"] or r["zq"] != r["rzq"]:
        bad.append(("(q op ZERO) == (q.in(u) op 0) for all six ops, both sides", r["rqz"] + "/" + r["rzq"], r["qz"] + "/" + r["zq"]))
    for key, what in (("add", "q + ZERO"), ("sub", "q - ZERO"), ("zadd", "ZERO + q")):
        if not same_number(srep, r[key], rep, x):
            bad.append((f"{what} == q", x, r[key]))
        if not same_number(srep, r[key], srep, r["r" + key]):
            bad.append((f"{what} == q.in(u) ± 0", r["r" + key], r[key]))
    for key, what in (("padd", "(p + ZERO) - origin"), ("zpadd", "(ZERO + p) - origin")):
        if not same_number(rep, r[key], rep, x) or r["ptype"] != "11":
            bad.append((f"{what} == x and has p's type", x, r[key]))
    for key, what in (("in", "q.in(u)"), ("inm", "q.in(QuantityMaker<U>{})"), ("inr", "q.in<Rep>(u)"), ("ind", "q.data_in(u)")):
        if r[key] != x and not (ex is None and exact_of(rep, r[key]) is None):
            bad.append((f"{what} == stored value", x, r[key]))
    if r["zsub"] != "-":                  # ZERO - q == -q (exact), where the harness evaluated it
        ez, eq_ = exact_of(srep, r["zsub"]), exact_of(rep, x)
        neg = None if eq_ is None else (("inf", -eq_[1]) if isinstance(eq_, tuple) else -eq_)
        if (ez is None) != (neg is None) or (ez is not None and ez != neg):
            bad.append(("ZERO - q == -q", neg, r["zsub"]))
    elif rep not in INT_INFO or INT_INFO[rep][0] < 32:
        bad.append(("ZERO - q evaluated", "a value", "-"))
    for key, what in (("pe", "q += ZERO"), ("me", "q -= ZERO")):
        if not same_number(rep, r[key], rep, x):
            bad.append((f"({what}) leaves q unchanged", x, r[key]))
    for site, v in zip(INIT_SITES, inits):
        if not is_zero_number(rep, v):
            bad.append((f"Quantity initialised from ZERO ({site}).in(u) == 0", 0, v))
    if len(inits) != len(INIT_SITES):
        bad.append(("number of initialisation forms", len(INIT_SITES), len(inits)))
    if exact and r["ub"] != "0":          # per-input UB verdicts only from the exact-count build
        bad.append(("no undefined operation / unsigned wrap (exact-count UBSan)", 0, r["ub"]))
    for what, want, got in bad:
        violations.append({"what": f"{what} fails: unit {units[ins['u']]['expr']}, rep {rep}, x={x}: expected {want}, got {got}",
                           "class": f"oracle-{what[:12]}-{rep}",
                           "rec": vrec(ins, cfg, x=x, observable=what, expected=str(want), actual=str(got), impl=a)})


def same_bits_or_nan(rep, got, x, allow_negzero_flip=False):
    if rep in INT_INFO:
        return got == x
    a, b = fcanon(fdecode(rep, got)), fcanon(fdecode(rep, x))
    if a[0] == "nan" or b[0] == "nan":
        return a[0] == b[0]
    if allow_negzero_flip and b == ("fin", True, 0, 0):
        return a == ("fin", False, 0, 0)
    return a == b


def rne_exact(v, rep):
    """Round the exact rational v to the float format, to nearest / ties to even: an implementation independent of the
    Lean model (Fractions, no mantissa/exponent bookkeeping shared with it).  Returns a decoded-value tuple."""
    p, eb, _ = FLT_INFO[rep]
    emax = (1 << (eb - 1)) - 1
    if v == 0:
        return ("fin", False, 0, 0)
    neg, a = v < 0, abs(v)
    e = a.numerator.bit_length() - a.denominator.bit_length()          # 2^(e-1) <= a < 2^(e+1)
    if a < Fraction(2) ** e:
        e -= 1                                                         # now 2^e <= a < 2^(e+1)
    q = max(e - (p - 1), 2 - emax - p)                                 # exponent of the unit in the last place
    scaled = a / (Fraction(2) ** q)
    n = scaled.numerator // scaled.denominator
    rem = scaled - n
    if rem > Fraction(1, 2) or (rem == Fraction(1, 2) and n % 2 == 1):
        n += 1
    if n == 0:
        return ("fin", neg, 0, 0)
    if Fraction(n) * Fraction(2) ** q >= Fraction(2) ** (emax + 1):
        return ("inf", neg)
    return fcanon(("fin", neg, n, q))


def pair_oracle(rep, aa, bb):
    """Exact results of a op b, a + b, a - b for two values of one rep (C++ / IEEE semantics): (cmp bits, add, sub) with add/sub
    as decoded floats, ints (wrapped for unsigned promoted types) or None where the operation is UB (not executed)."""
    if rep in INT_INFO:
        a, b = int(aa), int(bb)
        cmpb = "".join("1" if c else "0" for c in (a == b, a != b, a < b, a <= b, a > b, a >= b))
        pr = promote(rep)
        res = []
        for v in (a + b, a - b):
            if INT_INFO[pr][1]:
                res.append(v if ilo(pr) <= v <= ihi(pr) else None)
            else:
                res.append(v % (1 << INT_INFO[pr][0]))
        return cmpb, res[0], res[1]
    da, db = fdecode(rep, aa), fdecode(rep, bb)
    ea, eb_ = fexact(da), fexact(db)
    if ea is None or eb_ is None:
        return "010000", ("nan",), ("nan",)

    def key(e):        # extended reals as comparable pairs
        return (e[1], 0) if isinstance(e, tuple) else (0, e)
    ka, kb = key(ea), key(eb_)
    cmpb = "".join("1" if c else "0" for c in (ka == kb, ka != kb, ka < kb, ka <= kb, ka > kb, ka >= kb))

    def add(x, dx, y, dy):
        if isinstance(x, tuple) or isinstance(y, tuple):
            if isinstance(x, tuple) and isinstance(y, tuple):
                return ("inf", x[1] < 0) if x[1] == y[1] else ("nan",)
            inf = x if isinstance(x, tuple) else y
            return ("inf", inf[1] < 0)
        if x == 0 and y == 0:
            return ("fin", dx[1] and dy[1], 0, 0)
        sres = x + y
        if sres == 0:
            return ("fin", False, 0, 0)
        return rne_exact(sres, rep)
    nb = (("inf", not db[1]) if db[0] == "inf" else ("fin", not db[1], db[2], db[3]))
    enb = fexact(nb)
    return cmpb, add(ea, da, eb_, db), add(ea, da, enb, nb)


def check_pair(ins, units, cfg, x, a, violations, vrec):
    aa, bb, m, ma = x
    rep = ins["rep"]
    srep = promote(rep) if rep in INT_INFO else rep
    r = kv(a)
    # independent oracle (exact arithmetic) on what the implementation computed; pairs are outside C19's quantifier, so a
    # failure is reported as a broken tie, not as a failing input of the property
    ocmp, oadd, osub = pair_oracle(rep, aa, bb)
    obad = []
    if r["cmp"] != ocmp:
        obad.append(f"cmp {r['cmp']} vs exact {ocmp}")
    for key, want in (("add", oadd), ("sub", osub)):
        if r[key] == "-":
            continue
        got = int(r[key]) if rep in INT_INFO else fcanon(fdecode(rep, r[key]))
        if want is None:
            obad.append(f"{key} executed although it overflows")
        elif (got != want) if rep in INT_INFO else not (got == fcanon(want) or (got[0] == "nan" and want[0] == "nan")):
            obad.append(f"{key} {got} vs exact {want}")
    if obad:
        violations.append({"what": f"same-type friends differ from exact arithmetic ({rep}: {aa}, {bb}): {'; '.join(obad)}",
                           "class": "oracle-pair", "no_input": True, "broken": "exact oracle on a op b, a + b, a - b (outside C19's quantifier)",
                           "rec": vrec(ins, cfg, kind="pair", a=aa, b=bb, model=ma, impl=a)})
    diffs = []
    if r["cmp"] != m["cmp"]:
        diffs.append("cmp")
    for key in ("add", "sub"):
        if m[key] == "ub":
            continue
        if not model_tok_matches(m[key], ins["u"], srep, r[key]):
            diffs.append(key)
    if cfg.startswith("exact") and r["ub"] != "0" and rep in INT_INFO and INT_INFO[promote(rep)][1]:
        diffs.append("ub")
    if diffs:
        violations.append({"what": f"model of the same-type friends differs from the implementation on {','.join(diffs)} "
                                   f"({rep}: {aa}, {bb})", "class": "corr-pair", "no_input": True,
                           "broken": "correspondence: qtyFriend (quantity.hh:249-265)",
                           "rec": vrec(ins, cfg, kind="pair", a=aa, b=bb, model=ma, impl=a)})


def conv_matrix(cwd, compiler, std, periods, punits=()):
    """Compile and run the SFINAE trait matrix. Returns (rows, None) or (None, compiler output)."""
    src, exe = os.path.join(cwd, "matrix.cc"), os.path.join(cwd, "matrix")
    H.write_matrix(src, periods, punits)
    rc, out = cxx(src, exe, compiler=compiler, std=std, opt="-O0", san=False, timeout=WALL_BACKSTOP)
    if rc != 0:
        return None, out[-3000:]
    rc, o, e = run([exe], timeout=WALL_BACKSTOP)
    rows = [l for l in o.split("\n") if l.startswith("M ")]
    nmin = len(H.ARITH_TYPES) + len(H.DUR_REPS) * len(periods) + 2 * len(punits) * len(H.REPS)
    if rc != 0 or not (nmin <= len(rows) <= nmin + len(H.OPTIONAL_ARITH)):
        return None, f"rc={rc}, {len(rows)} rows\n{e[-2000:]}"
    return rows, None


def accepted_targets(rows, periods):
    """Targets for which every context accepts ZERO, in the generator's own spelling."""
    good = lambda l: all(kv(l)[c] == "1" for c in H.MATRIX_CONTEXTS)
    arows = {l.split()[2]: l for l in rows if l.startswith("M arith ")}
    at = [t for t in H.ARITH_TYPES + [t for t, _ in H.OPTIONAL_ARITH] if H.tname(t) in arows and good(arows[H.tname(t)])]
    drows = [l for l in rows if l.startswith("M dur ")]
    allt = [(r, n, d) for r in H.DUR_REPS for (n, d) in periods]
    dt = [t for t, l in zip(allt, drows) if good(l)]
    return at, dt


def check_matrix(rows, drv, cfg, violations, stats):
    """Every (target type, context) must accept ZERO: the statement says so ('converts to 0 of every arithmetic type and every
    chrono duration'), and so does the model (convertZero never rejects an arithmetic or duration target)."""
    check_point_grid([l for l in rows if l.startswith("M point ") or l.startswith("M qty ")], drv, cfg, violations, stats)
    rows = [l for l in rows if l.startswith("M arith ") or l.startswith("M dur ")]
    req = []
    for l in rows:
        f, d = l.split(), kv(l)
        fk, bits, sg = int(d["fkind"]), int(d["bits"]), d["signed"] == "1"
        rp = {1: "f32", 2: "f64", 3: "f80"}[fk] if fk else (("i" if sg else "u") + str(8 if bits == 1 else bits))
        req.append(f"c19 conv arith {rp}" if f[1] == "arith" else f"c19 conv dur {rp} {d['pnum']} {d['pden']}")
    for l, rq, ma in zip(rows, req, drv.ask(req)):
        f, d = l.split(), kv(l)
        stats["matrix_cells"] = stats.get("matrix_cells", 0) + len(H.MATRIX_CONTEXTS)
        target = f[2].replace("_", " ") if f[1] == "arith" else f"std::chrono::duration<{f[2].replace('_', ' ')}, std::ratio<{d['num']}, {d['den']}>>"
        if f[1] == "arith" and d["arithmetic"] != "1":
            violations.append({"what": f"harness type list: {target} is not an arithmetic type", "class": "matrix-list", "no_input": True,
                               "broken": "harness", "rec": {"kind": "conv", "target": target, "config": cfg}})
            continue
        for c in H.MATRIX_CONTEXTS:
            if d[c] == "1":
                continue
            stats["matrix_rejected"] = stats.get("matrix_rejected", 0) + 1
            rec = {"kind": "convctx", "target": target, "context": c, "config": cfg, "impl": l, "model": ma, "request": rq,
                   "observable": "accepted", "expected": "accepted", "actual": "rejected"}
            # oracle: the statement; concrete input = (type, context)
            violations.append({"what": f"ZERO does not convert to {target} in context {c} ({cfg}): the conversion is rejected "
                                       f"(SFINAE probe), the statement and the model ({ma}) require it to give 0",
                               "class": f"oracle-convctx-{f[2]}-{c}", "rec": rec})
        if not ma.startswith("ok "):
            violations.append({"what": f"model rejects ZERO -> {target}", "class": "corr-matrix", "no_input": True,
                               "broken": "correspondence: convertZero", "rec": {"kind": "conv", "target": target, "model": ma}})


GRID_SITES = ["copyInit", "directInit", "braceInit", "assign", "argument", "returnValue", "staticCast", "listAssign"]
GRID_OPS = [("eq", "eq", "pz"), ("ne", "ne", "pz"), ("lt", "lt", "pz"), ("le", "le", "pz"), ("gt", "gt", "pz"), ("ge", "ge", "pz"),
            ("zeq", "eq", "zp"), ("zne", "ne", "zp"), ("zlt", "lt", "zp"), ("zle", "le", "zp"), ("zgt", "gt", "zp"), ("zge", "ge", "zp"),
            ("zsub", "sub", "zp"), ("psub", "sub", "pz"), ("padd", "add", "pz"), ("zadd", "add", "zp")]
_grid_units = {}


def check_point_grid(rows, drv, cfg, violations, stats):
    """Full grid (site kind or operator) x (directed unit) x (all 11 reps), by SFINAE: ZERO must be rejected wherever a
    QuantityPoint is required, accepted in the two Diff slots of the point's operator+, and accepted at the same places for
    the Quantity.  Expected verdicts: the statement (oracle) and, independently, the model's gate table."""
    if not rows:
        return
    req, meta = [], []
    for l in rows:
        f, d = l.split(), kv(l)
        kind, ui, rp = f[1], f[2], f[3]
        z = "0" if rp in INT_INFO else "+,0,0"
        for sname in GRID_SITES:
            msite = "assign" if sname == "listAssign" else sname
            req.append(f"c19 site {msite} {'point' if kind == 'point' else 'qty'} {ui} {rp}")
            meta.append((l, kind, ui, rp, sname, d[sname]))
        for key, op, side in GRID_OPS:
            o = f"{'pt' if kind == 'point' else 'qty'}:{ui}:{rp}:{z}"
            req.append(f"c19 bin {op} {o} zero" if side == "pz" else f"c19 bin {op} zero {o}")
            meta.append((l, kind, ui, rp, key, d[key]))
    for (l, kind, ui, rp, key, got), ma in zip(meta, drv.ask(req)):
        stats["grid_cells"] = stats.get("grid_cells", 0) + 1
        unit = _grid_units.get(int(ui), ui)
        model_accepts = ma.startswith("ok ")
        # oracle, from the statement: a point slot never accepts ZERO; `p + ZERO` / `ZERO + p` have a quantity (Diff) slot;
        # a quantity accepts ZERO everywhere (psub/zsub of a quantity are ordinary differences)
        if kind == "point":
            want = key in ("padd", "zadd")
        else:
            want = True
        if (got == "1") != want:
            what = (f"ZERO is accepted where a QuantityPoint is required ({key}, unit {unit}, rep {rp}, {cfg})" if kind == "point" and not want
                    else f"ZERO is rejected in a quantity slot ({kind} {key}, unit {unit}, rep {rp}, {cfg})")
            violations.append({"what": what, "class": f"oracle-grid-{kind}-{key}",
                               "rec": {"kind": "grid", "what": kind, "site": key, "unit": unit, "rep": rp, "config": cfg, "impl": l,
                                       "model": ma, "observable": "accepted", "expected": str(want), "actual": got}})
        if model_accepts != (got == "1"):
            violations.append({"what": f"model verdict '{ma}' differs from the compiler's SFINAE verdict {got} ({kind} {key}, unit {unit}, rep {rp})",
                               "class": "corr-grid", "no_input": True, "broken": "correspondence: convertZero/binop gate table",
                               "rec": {"kind": "grid", "what": kind, "site": key, "unit": unit, "rep": rp, "config": cfg, "impl": l, "model": ma}})


def check_conv(al, drv, cfg, violations, stats, samples):
    req, meta = [], []
    zz = [l for l in al if l.startswith("A zz ")]
    al = [l for l in al if not l.startswith("A zz ")]
    for l in zz:
        d = kv(l)
        stats["conv_lines"] += 1
        ans = drv.ask([f"c19 bin {o} zero zero" for o in OPN + ["add", "sub"]])
        mbits = "".join(a.split()[-1] if a.startswith("ok bool") else "?" for a in ans[:6])
        rec = {"kind": "conv", "target": "Zero-Zero operators", "config": cfg, "impl": l, "model": ans}
        if d["cmp"] != mbits or d["ccmp"] != mbits or ans[6:] != ["ok zero", "ok zero"] or (d["addzero"], d["subzero"]) != ("1", "1"):
            violations.append({"what": "model and implementation differ on the Zero-Zero operators", "class": "corr-zz",
                               "no_input": True, "broken": "correspondence: zeroZero", "rec": rec})
        want = "".join("1" if cmp_exact(o, 0) else "0" for o in OPN)      # 0 op 0 in exact arithmetic
        if d["cmp"] != want or d["ccmp"] != want or (d["addzero"], d["subzero"]) != ("1", "1"):
            violations.append({"what": f"ZERO op ZERO is not 0 op 0: got {d['cmp']}/{d['ccmp']}, expected {want}; ZERO±ZERO is Zero: "
                                       f"{d['addzero']}{d['subzero']}", "class": "oracle-zz",
                               "rec": dict(rec, observable="ZERO op ZERO", expected=want, actual=d["cmp"])})
    if not zz:
        violations.append({"what": "harness printed no Zero-Zero line", "class": "corr-zz", "no_input": True,
                           "broken": "harness protocol", "rec": {"kind": "conv", "config": cfg}})
    for l in al:
        f = l.split()
        d = kv(l)
        fk, bits, sg = int(d["fkind"]), int(d["bits"]), d["signed"] == "1"
        rep = {1: "f32", 2: "f64", 3: "f80"}[fk] if fk else (("i" if sg else "u") + str(8 if bits == 1 else bits))
        if f[1] == "arith":
            req.append(f"c19 conv arith {rep}")
        else:
            req.append(f"c19 conv dur {rep} {d['num']} {d['den']}")
        meta.append((l, f[1], f[2], rep, d))
    for (l, kind, name, rep, d), ma in zip(meta, drv.ask(req)):
        stats["conv_lines"] += 1
        rec = {"kind": "conv", "target": f"{kind} {name}" + (f" ratio<{d['num']},{d['den']}>" if kind == "dur" else ""),
               "rep": rep, "config": cfg, "impl": l, "model": ma}
        vals = d["vals"].split(",")
        # model
        mt = ma.split()
        mv = mt[-1].split(":") if mt and mt[0] == "ok" else None
        ok_model = mv is not None and mv[0] == rep and all(
            (v == mv[1]) if rep in INT_INFO else (fparse_model(mv[1]) == fcanon(fdecode(rep, v))) for v in vals)
        if kind == "dur" and mv is not None and mt[2] != f"{d['num']}/{d['den']}":
            ok_model = False
        if not ok_model:
            violations.append({"what": f"model and implementation differ on ZERO -> {rec['target']}", "class": "corr-conv",
                               "no_input": True, "broken": "correspondence: convertZero", "rec": rec})
        # oracle: the number 0, in every context; the conversion is implicit
        if d["conv"] != "1" or not all(is_zero_number(rep, v) for v in vals) or (kind == "dur" and d["iszero"] != "1"):
            violations.append({"what": f"ZERO does not convert to 0 of {rec['target']}: {d['vals']}", "class": f"oracle-conv-{kind}",
                               "rec": dict(rec, observable="conversion", expected="0", actual=d["vals"])})
        if len(samples) < 14 and stats["conv_lines"] % 61 == 5:
            samples.append({"request": f"ZERO -> {rec['target']}", "model": ma, "harness": l})


def run_probes(tier, seed, rng, wd, units, drv, violations, stats, samples):
    pd = os.path.join(wd, "probes")
    os.makedirs(pd, exist_ok=True)
    sites = list(PROBE_SITES)
    if tier == "quick":
        nper, compilers = 2, [("g++", "c++14"), [c for c in CONFIGS if c[0].startswith("clang")][seed % 3]]
    else:
        nper, compilers = 8, list(CONFIGS)
    cases = []
    # directed every run: units with an origin, unitless, equivalent-typed; every rep
    dnames = ["au::Celsius", "au::Fahrenheit", "au::Kelvins", "decltype(au::Celsius{} * au::mag<2>())", "au::UnitProductT<>",
              "au::Unos", "au::Meters", "decltype(au::Inches{} * au::mag<12>())", "au::Milli<au::Seconds>"]
    dunits = [i for n in dnames for i, u in enumerate(units) if u["expr"] == n]
    for si, site in enumerate(sites):
        for k in range(nper):
            ui = rng.randrange(len(units))
            rep = rng.choice(H.REPS)
            if k == 0 and dunits:
                ui = dunits[(si + seed) % len(dunits)]
                rep = H.REPS[(si + seed) % len(H.REPS)]
            comp = compilers[(si + k) % len(compilers)]
            cases.append({"site": site, "u": ui, "rep": rep, "compiler": comp[0], "std": comp[1]})
    mans = drv.ask([model_probe_request(c["site"], c["u"], c["rep"]) for c in cases])

    def neg(ic):
        i, c = ic
        p = os.path.join(pd, f"neg{i}.cc")
        src = probe_src(units[c["u"]], c["rep"], c["site"], control=False)
        open(p, "w").write(src)
        rc, out = cxx(p, None, compiler=c["compiler"], std=c["std"], san=False, syntax_only=True, timeout=WALL_BACKSTOP)
        pc = os.path.join(pd, f"ctl{i}.cc")
        srcc = probe_src(units[c["u"]], c["rep"], c["site"], control=True)
        open(pc, "w").write(srcc)
        rcc, outc = cxx(pc, None, compiler=c["compiler"], std=c["std"], san=False, syntax_only=True, timeout=WALL_BACKSTOP)
        return c, src, rc, out, rcc, outc
    for (c, src, rc, out, rcc, outc), ma in zip(pmap(neg, list(enumerate(cases))), mans):
        stats["neg_probes"] += 1
        stats["control_probes"] += 1
        stats["probe_sites"][c["site"]] = stats["probe_sites"].get(c["site"], 0) + 1
        cfg = f"{c['compiler']} -std={c['std']}"
        rec = {"kind": "probe", "site": c["site"], "unit": units[c["u"]]["expr"], "rep": c["rep"], "config": cfg, "tu": src,
               "model": ma}
        mt = ma.split()
        model_reject = mt[0] == "hard"
        why, errs = classify_rejection(out)
        okind = PROBE_SITES[c["site"]][0]
        if okind.startswith("oracle:"):
            import re
            rec["model"] = "(not modelled)"
            if rcc != 0:
                violations.append({"what": f"control probe does not compile: {c['site']}", "class": "probe-control", "no_input": True,
                                   "broken": "probe scaffolding", "rec": dict(rec, out=outc[-1500:])})
            elif rc == 0:
                violations.append({"what": f"ZERO is accepted by a point maker ({c['site']}, unit {rec['unit']}, rep {c['rep']}, {cfg})",
                                   "class": f"oracle-point-{c['site']}", "rec": dict(rec, observable="accepted", expected="rejected",
                                                                                    actual="compiles")})
            elif not re.search(ORACLE_ONLY[okind.split(":")[1]], out):
                violations.append({"what": f"probe rejected for a reason outside the allow-list ({c['site']})", "class": "probe-allow",
                                   "no_input": True, "broken": "probe allow-list", "rec": dict(rec, out=out[-1500:])})
            continue
        if len(samples) < 18 and stats["neg_probes"] % 13 == 1:
            samples.append({"probe": f"{c['site']} {units[c['u']]['expr']} {c['rep']} [{cfg}]", "model": ma,
                            "compiler": (errs[0][:200] if errs else "accepted")})
        if rcc != 0:
            violations.append({"what": f"control probe (a genuine point in place of ZERO) does not compile: {c['site']}",
                               "class": "probe-control", "no_input": True, "broken": "probe scaffolding",
                               "rec": dict(rec, out=outc[-1500:])})
            continue
        # oracle: the compiler's verdict — ZERO must never be accepted where a point is required
        if rc == 0:
            violations.append({"what": f"ZERO is accepted where a QuantityPoint is required ({c['site']}, unit {rec['unit']}, rep {c['rep']}, {cfg})",
                               "class": f"oracle-point-{c['site']}", "rec": dict(rec, observable="accepted", expected="rejected",
                                                                                actual="compiles")})
        elif why is None:
            violations.append({"what": f"probe rejected for a reason outside the allow-list ({c['site']})", "class": "probe-allow",
                               "no_input": True, "broken": "probe allow-list", "rec": dict(rec, out=out[-1500:])})
        # correspondence with the model's gate table
        if model_reject != (rc != 0) or (rc != 0 and why is not None and mt[1:] != [why]):
            violations.append({"what": f"model verdict '{ma}' differs from the compiler's ({'rejected: ' + str(why) if rc else 'accepted'})",
                               "class": "corr-probe", "no_input": True, "broken": "correspondence: convertZero/binop gate table",
                               "rec": dict(rec, out=out[-800:])})


def apply_pending(violations):
    keep = []
    for v in violations:
        r = v.get("rec", {})
        if any(all(r.get(k) == w for k, w in pf.items()) for pf in PENDING_FINDINGS):
            continue
        keep.append(v)
    return keep


def main(tier, seed):
    t0 = time.time()
    wd = workdir(PROP)
    proof = prove(PROP)
    cov, viol = explore(tier, seed, rng_for(PROP, seed), wd)
    cov["pending_findings"] = PENDING_FINDINGS
    cov["repo"] = REPO
    return finish(PROP, tier, seed, t0, proof, cov, apply_pending(viol), ASSUME)


def replay(path):
    rec = json.load(open(path))
    r = rec.get("rec", {})
    print(json.dumps({k: v for k, v in r.items() if k not in ("tu", "impl", "out")}, indent=1))
    wd = workdir(PROP + "_replay")
    drv = Driver()
    cfg = r.get("config", "g++ -std=c++14").split()
    compiler, std = cfg[0], cfg[1].replace("-std=", "")
    if r.get("kind") == "probe":
        p = os.path.join(wd, "probe.cc")
        open(p, "w").write(r["tu"])
        rc, out = cxx(p, None, compiler=compiler, std=std, san=False, syntax_only=True)
        why, errs = classify_rejection(out)
        print("compiler:", "accepted" if rc == 0 else f"rejected ({why})", "| model:", r.get("model"))
        print("\n".join(errs[:3]))
        if rc == 0:
            print(f"VIOLATION property={PROP} replay={path}")
            return 1
        print("replay: property holds on this case")
        return 0
    if r.get("kind") == "convctx":
        rows, merr = conv_matrix(wd, compiler, std, H.STD_PERIODS)
        if rows is None:
            print("replay: trait matrix does not build:", merr[-1500:])
            return 1
        viol = Violations()
        check_matrix(rows, drv, " ".join(cfg), viol, {})
        mine = [v for v in viol if v["rec"].get("target") == r.get("target") and v["rec"].get("context") == r.get("context")]
        for v in (mine or list(viol))[:6]:
            print(" -", v["what"])
        if mine:
            print(f"VIOLATION property={PROP} replay={path}")
            return 1
        print("replay: property holds on this case" + (" (other cells fail, see above)" if len(viol) else ""))
        return 1 if len(viol) else 0
    if r.get("kind") in ("value", "pair", "conv"):
        unit = {"expr": r.get("unit", "au::Meters"), "pre": r.get("unit_pre", ""), "kind": "replay"}
        rep = r.get("rep", "i32") if r.get("rep") in H.REPS else "i32"
        ins = {"id": 0, "u": 0, "rep": rep}
        rows, _ = conv_matrix(wd, compiler, std, H.STD_PERIODS)
        at, dt = accepted_targets(rows, H.STD_PERIODS) if rows is not None else (None, None)
        files = H.write_harness(wd, [unit], [ins], H.STD_PERIODS, nchunks=1, arith_types=at, dur_targets=dt)
        exe, err = build_harness(wd, files, compiler, std, "rp", "-O0")
        if exe is None:
            print("replay: harness does not build:", err["output"][-1500:])
            print(f"VIOLATION property={PROP} replay={path} no-failing-input-found")
            return 1
        viol = []
        stats = {"point_classes": {k: 0 for k in ("neg", "zero", "pos", "nan", "inf", "subnormal", "negzero")}, "conv_lines": 0}

        def vrec(i, c, **kw):
            return dict({"kind": "value", "unit": unit["expr"], "rep": rep, "config": c}, **kw)
        if r.get("kind") == "conv":
            al, _ = run_block(exe, "A")
            check_conv(al, drv, " ".join(cfg), viol, stats, [])
        elif r.get("kind") == "pair":
            a, b = str(r["a"]), str(r["b"])
            ma = drv.ask([f"c19 pair 0 {rep} {model_val(rep, a)} {model_val(rep, b)}"])[0]
            m = kv(ma)
            ans, _ = run_harness(exe, [f"Q 0 {a} {b} {int(m['add'] != 'ub')} {int(m['sub'] != 'ub')}"], shards=1)
            print("impl  :", ans[0])
            print("model :", ma)
            check_pair(ins, [unit], " ".join(cfg), (a, b, m, ma), ans[0], viol, vrec)
        else:
            x = str(r.get("x", "0"))
            dl, _ = run_block(exe, "D")
            print("types :", dl[0])
            ans, _ = run_harness(exe, [f"P 0 {x}"], shards=1)
            ma = drv.ask([f"c19 eval 0 {rep} {model_val(rep, x)}"])[0]
            print("impl  :", ans[0])
            print("model :", ma)
            print("oracle: exact value", exact_of(rep, x))
            if ans[0].startswith("T "):
                viol.append({"what": "trap: " + ans[0][:200]})
            else:
                xa = drv.ask([f"c19 extra 0 {rep} {model_val(rep, x)}"])[0]
                print("extra :", xa)
                check_point(ins, [unit], " ".join(cfg), x, ans[0], ma, viol, stats, vrec, exact=(compiler == "exact"), extra=xa)
            d = kv(dl[0])
            if (d["pc"], d["pv"], d["pa"], d["qc"], d["qv"], d["qa"], d["ce"], d["unit_same"]) != ("0", "0", "0", "1", "1", "1", "1", "1"):
                viol.append({"what": "type-level facts fail: " + dl[0]})
        for v in viol[:6]:
            print(" -", v["what"])
        if viol:
            conc = [v for v in viol if not v.get("no_input")]
            print(f"VIOLATION property={PROP} replay={path}" + ("" if conc else " no-failing-input-found"))
            return 1
        print("replay: property holds on this case")
        return 0
    print("replay: record names a broken obligation or build:", rec.get("broken") or rec.get("what"))
    return 1

"""C20 — behaviour is independent of packaging, language standard and compiler.

Proved (Lean, AuProofs/C20.lean + Gen/C20.lean): the packaging algorithm of tools/bin/make-single-file
(which files, in which order) on every well-formed include graph and on the regenerated real graph.
Checked here on every run:

  A. extraction  — the real include graph (liberal regex, independent of the script) → Generated/IncludeGraph.lean;
                   every include line is one the script recognises; Gen obligations by `decide`.
  B. order       — the REAL script (loaded with importlib in a helper process, and through its command
                   line) vs the compiled Lean model, on random selections of the real tree and on random
                   synthetic include trees; statement-level oracle (own closure / once / includes-first, and
                   for synthetic trees the compiler: single-file vs multi-header must both compile and agree)
                   on every case; malformed graphs (duplicate line, cycle, dangling) vs the model's
                   diverges / missing answers.
  C. compilers   — tools/c20_cxx.py: generated single-file headers self-contained / includable twice / two TUs;
                   generated API-surface programs: single-file vs multi-header × {g++, clang++-14} × {14,17,20};
                   every public header alone and twice; *_fwd.hh vs definitions; F4 observation.
"""
import json
import os
import re
import shutil
import subprocess
import sys
import time

import c20_cxx
import extract_c20
import vlib
from vlib import Driver, finish, pmap, prove, rng_for, run, workdir

PROP = "C20"

ASSUME = [
    "proved: the file selection/ordering algorithm of make-single-file (model AuModel/SingleFile.lean) on every finite "
    "acyclic duplicate-free include graph, and on the repository's regenerated graph; the model is tied to the script by "
    "the differential correspondence of this run (exact file order), not by translation",
    "NOT proved (correspondence only): everything about C++ compilers and language standards — self-containedness of the "
    "generated header, equality of program output across packagings and across {g++ 12, clang++ 14} x {c++14,17,20}, "
    "headers compiling on their own, *_fwd.hh matching their definitions — these are observed on the sampled selections "
    "and generated programs of this run",
    "text-level behaviour of the script (copyright stripping, blank-line collapsing, global-include hoisting) is not "
    "modelled; it is checked on the generated headers by compilation and by comparing the emitted body with the "
    "concatenation of the script's own per-file lines in the MODEL's order",
    "sub-int reps: `%` and unary +/- are excluded from the generated API programs (finding F4, recorded as an observation)",
]

# Defect candidates found by the directed API-surface probes and reported to the coordinator; each entry matches ONE
# probe under exactly the configurations in which it fails on the pinned tree (anything else stays a VIOLATION).
# Remove an entry when /repo is fixed or the finding is listed in known_findings.json.
PENDING_FINDINGS = []      # findings live in /verif/known_findings.json (F22 fixed; F23, F24, F25 listed)


def is_pending(v):
    r = v.get("rec", {})
    return any(all(r.get(k) == w for k, w in p.items()) for p in PENDING_FINDINGS)


SCRIPT = os.path.join(vlib.REPO, "tools", "bin", "make-single-file")

HELPER = r'''
import argparse, contextlib, importlib.machinery, importlib.util, io, json, os, resource, sys
script, root = sys.argv[1], sys.argv[2]
os.chdir(root)
# a script that loops while appending to its work list must die quickly instead of eating the machine
resource.setrlimit(resource.RLIMIT_AS, (1 << 31, 1 << 31))
resource.setrlimit(resource.RLIMIT_CPU, (int(sys.argv[3]), int(sys.argv[3]) + 1))
loader = importlib.machinery.SourceFileLoader("msf", script)
spec = importlib.util.spec_from_loader("msf", loader)
mod = importlib.util.module_from_spec(spec)
loader.exec_module(mod)
count = [0]
Orig = mod.SourceFile
class Counting(Orig):
    def __init__(self, filename):
        count[0] += 1
        super().__init__(filename)
mod.SourceFile = Counting
for line in sys.stdin:
    job = json.loads(line)
    try:
        count[0] = 0
        kw = dict(main_files=list(job["mains"]), units=list(job["units"]), constants=list(job["constants"]),
                  include_io=job["io"])
        names = mod.filenames(**kw)
        names0 = list(names)
        files = mod.parse_files(filenames=names)
        keys = list(files.keys())
        incs = {f: list(files[f].graph_includes) for f in files}
        lines = {f: list(files[f].lines) for f in files}
        glob = sorted(mod.include_lines(files))
        order = mod.sort_topologically(files)
        res = {"ok": True, "names": names0, "files": keys, "order": order, "parsed": count[0], "incs": incs,
               "glob": glob}
        if job.get("text"):
            res["lines"] = lines
            files2 = mod.parse_files(filenames=mod.filenames(**kw))
            ns = argparse.Namespace(main_files=list(job["mains"]), units=list(job["units"]),
                                    constants=list(job["constants"]), version_id="C20", include_io=job["io"])
            buf = io.StringIO()
            with contextlib.redirect_stdout(buf):
                mod.print_unified_file(files2, args=ns)
            res["text"] = buf.getvalue()
    except FileNotFoundError as e:
        res = {"ok": False, "error": "missing", "file": e.filename}
    except Exception as e:
        res = {"ok": False, "error": type(e).__name__ + ": " + str(e)}
    sys.stdout.write(json.dumps(res) + "\n")
    sys.stdout.flush()
'''


def _limits():
    import resource
    resource.setrlimit(resource.RLIMIT_AS, (1 << 31, 1 << 31))
    resource.setrlimit(resource.RLIMIT_CPU, (60, 61))


def run_helper(wd, root, jobs, timeout=60):
    """`timeout` is a CPU-time limit (robust against machine load); the wall-clock limit is 30x that.
    Run the real script's functions (cwd = root) on the jobs. Returns list of result dicts; a
    timeout gives [{"ok": False, "error": "timeout"}] * len(jobs)."""
    hp = os.path.join(wd, "helper.py")
    if not os.path.exists(hp):
        with open(hp, "w") as f:
            f.write(HELPER)
    try:
        p = subprocess.run([sys.executable, hp, SCRIPT, root, str(int(timeout))],
                           input="".join(json.dumps(j) + "\n" for j in jobs),
                           capture_output=True, text=True, timeout=max(300, 30 * timeout))
    except subprocess.TimeoutExpired:
        return [{"ok": False, "error": "timeout"} for _ in jobs]
    out = [json.loads(l) for l in p.stdout.split("\n") if l.strip()]
    if len(out) != len(jobs):
        # the helper died (CPU limit = the script loops; anything else is reported as such)
        why = "timeout" if p.returncode in (-9, -24, 137, 152) else "helper died rc=%s: %s" % (p.returncode, p.stderr[-300:])
        out += [{"ok": False, "error": why} for _ in range(len(jobs) - len(out))]
    return out


# ----------------------------------------------------------------------------------------------
# model side
# ----------------------------------------------------------------------------------------------

def enc_ids(l):
    return ",".join(str(x) for x in l) if l else "-"


def enc_graph(g):
    """g: list of (id, [ids]) in file order."""
    return ";".join("%d:%s" % (k, ",".join(str(x) for x in l)) for k, l in g) if g else "-"


def dec_ids(s):
    return [] if s == "-" else [int(x) for x in s.split(",")]


def parse_model(ans):
    """→ ("done", order, files) | ("missing", id) | ("diverges",) | ("bad", text)"""
    f = ans.split()
    if f and f[0] == "done":
        d = vlib.kv(ans)
        return ("done", dec_ids(d["order"]), dec_ids(d["files"]))
    if f and f[0] == "missing":
        return ("missing", int(f[1]))
    if ans == "diverges":
        return ("diverges",)
    return ("bad", ans)


# ----------------------------------------------------------------------------------------------
# statement-level oracle (independent of the model and of the script's own parsing)
# ----------------------------------------------------------------------------------------------

def closure(inc, names):
    seen, todo = set(), list(names)
    while todo:
        f = todo.pop()
        if f in seen:
            continue
        seen.add(f)
        todo += [t for t in inc.get(f, [])]
    return seen


def round_stats(inc, files):
    """Statistics only (never compared): number of passes sort_topologically needs on `files`, and how
    many files become ready *within* a pass because an earlier key of the same pass was removed in place —
    the branch a naive 'collect ready set, then remove' reimplementation would get wrong."""
    deps = {f: list(inc.get(f, [])) for f in files}
    rounds = cascades = 0
    while deps and rounds <= len(files):
        rounds += 1
        ready_at_start = {f for f in deps if not deps[f]}
        added = []
        for f in deps:
            if not deps[f]:
                for g in deps:
                    if f in deps[g]:
                        deps[g].remove(f)
                added.append(f)
        cascades += len([f for f in added if f not in ready_at_start])
        for f in added:
            deps.pop(f)
        if not added:
            break
    return rounds, cascades


def oracle_order(inc, names, order):
    """Property statement on an emitted order. Returns list of failure strings (empty = holds)."""
    bad = []
    want = closure(inc, names)
    got = set(order)
    if got != want:
        bad.append("set differs from the include closure: missing %s extra %s" %
                   (sorted(want - got)[:5], sorted(got - want)[:5]))
    if len(order) != len(got):
        dup = sorted({f for f in order if order.count(f) > 1})
        bad.append("emitted more than once: %s" % dup[:5])
    pos = {}
    for i, f in enumerate(order):
        pos.setdefault(f, i)
    for f in order:
        for t in inc.get(f, []):
            if t not in pos or pos[t] >= pos[f]:
                bad.append("%s is emitted before its include %s" % (f, t))
                break
    return bad


# ----------------------------------------------------------------------------------------------
# B1. the real tree
# ----------------------------------------------------------------------------------------------

def unit_and_constant_names():
    ud = os.path.join(vlib.AU_INC, "au", "units")
    cd = os.path.join(vlib.AU_INC, "au", "constants")
    units = sorted(f[:-3] for f in os.listdir(ud) if f.endswith(".hh") and not f.endswith("_fwd.hh"))
    consts = sorted(f[:-3].upper() for f in os.listdir(cd) if f.endswith(".hh") and not f.endswith("_fwd.hh"))
    return units, consts


def gen_selections(rng, units, consts, others, n, n_compile):
    """First n_compile selections are the ones handed to the compiler probes (no extra main files,
    no repeated names): the empty one, the full one, and random small/medium ones."""
    sels = []

    def mk(us, cs, io, mains=()):
        sels.append({"id": len(sels), "units": list(us), "constants": list(cs), "io": bool(io), "mains": list(mains)})
    io0 = rng.random() < 0.5
    mk([], [], io0)
    full_u, full_c = units[:], consts[:]
    rng.shuffle(full_u)
    rng.shuffle(full_c)
    mk(full_u, full_c, not io0)
    while len(sels) < n_compile:
        k = rng.choice([1, 2, 3, 4, 6, 9, 12])
        c = rng.choice([0, 0, 1, 2, 3])
        mk(rng.sample(units, min(k, len(units))), rng.sample(consts, min(c, len(consts))), len(sels) % 2 == 0)
    # order-only selections: every size class, repeated names, extra main files
    mk([], [], not io0)
    mk(full_u, full_c, io0)
    for u in rng.sample(units, min(6, len(units))):
        mk([u], [], rng.random() < 0.5)
    for c in consts:
        mk([], [c], rng.random() < 0.5)
    while len(sels) < n:
        r = rng.random()
        if r < 0.35:
            k = rng.randrange(1, 6)
        elif r < 0.7:
            k = rng.randrange(6, 30)
        else:
            k = rng.randrange(30, len(units) + 1)
        us = rng.sample(units, min(k, len(units)))
        cs = rng.sample(consts, rng.randrange(0, len(consts) + 1)) if rng.random() < 0.6 else []
        if rng.random() < 0.15 and us:
            us += [rng.choice(us) for _ in range(rng.randrange(1, 3))]       # `--units meters meters`
            rng.shuffle(us)
        mains = rng.sample(others, rng.randrange(1, 3)) if rng.random() < 0.2 and others else []
        mk(us, cs, rng.random() < 0.5, mains)
    return sels


def cli_args(sel):
    a = list(sel.get("mains", []))
    if sel["units"]:
        a += ["--units"] + sel["units"]
    if sel["constants"]:
        a += ["--constants"] + sel["constants"]
    if not sel["io"]:
        a.append("--noio")
    return a + ["--version-id", "C20"]


def viol_order(kind, what, cls, rec, no_input, broken=None):
    v = {"what": what, "class": cls, "rec": dict(rec, kind=kind), "no_input": no_input}
    if broken:
        v["broken"] = broken
    return v


def check_case(tag, kind, rec, inc, ids, names_expected, res, model, stats, violations):
    """One (graph, selection) case: res = helper answer (implementation), model = parsed driver answer.
    inc: independent graph name → [names]; ids: name → id."""
    stats["evaluations"] += 1
    rev = {i: n for n, i in ids.items()}
    if not res["ok"]:
        violations.append(viol_order(kind, "the script fails on a well-formed selection: %s" % res.get("error"),
                                     "script-fails", dict(rec, impl=res), False))
        return
    # the names the property statement asks for
    if res["names"] != names_expected:
        violations.append(viol_order(kind, "filenames() does not return au.hh + units + constants + main files (+ io.hh)",
                                     "names", dict(rec, impl=res["names"], expected=names_expected), False))
    bad = oracle_order(inc, names_expected, res["order"])
    if bad:
        violations.append(viol_order(kind, "single-file order violates the property: " + "; ".join(bad[:3]),
                                     "oracle-order", dict(rec, order=res["order"], failures=bad[:10]), False))
    # script's own view of the graph vs the independent extraction
    for f, l in res["incs"].items():
        if inc.get(f) != l:
            violations.append(viol_order(kind, "the script's graph_includes of %s differ from the include lines found "
                                         "by the independent scan" % f, "graph-scan",
                                         dict(rec, file=f, script=l, scan=inc.get(f)), True,
                                         "correspondence: include extraction"))
            break
    # model vs implementation (exact order; the model is a transcript)
    if model[0] != "done":
        violations.append(viol_order(kind, "model answers %s where the script produced an order" % (model,),
                                     "corr-order", dict(rec, model=str(model)), True, "correspondence: c20.order"))
        return
    m_order = [rev.get(i, "?%d" % i) for i in model[1]]
    m_files = [rev.get(i, "?%d" % i) for i in model[2]]
    if m_files != res["files"]:
        violations.append(viol_order(kind, "parse_files dictionary order differs between model and script",
                                     "corr-files", dict(rec, model=m_files, impl=res["files"]), True,
                                     "correspondence: parseFiles"))
    if m_order != res["order"]:
        violations.append(viol_order(kind, "emitted file order differs between model and script",
                                     "corr-order", dict(rec, model=m_order, impl=res["order"]), True,
                                     "correspondence: emitOrder"))
    stats["repops"] += res["parsed"] - len(res["files"])
    if len(res["order"]) >= 3 and res["order"] != res["files"] and res["order"] != res["files"][::-1]:
        stats["nontrivial"].add(tag)
    stats["sizes"].append(len(res["order"]))
    rounds, casc = round_stats(inc, res["files"])
    stats["rounds_hist"][min(rounds, 8)] = stats["rounds_hist"].get(min(rounds, 8), 0) + 1
    stats["in_pass_cascades"] += casc


def check_text(kind, rec, res, model, glob_expected, text, violations, stats):
    """The emitted text: body = the script's own per-file lines concatenated in the MODEL's order;
    prologue = comments, `#pragma once`, the de-duplicated sorted global includes; no project include left."""
    stats["texts"] += 1
    tl = text.split("\n")
    left = [l for l in tl if re.match(r'^\s*#\s*include\s*"', l)]
    if left:
        violations.append(viol_order(kind, "generated header still contains a project include: %s" % left[0],
                                     "text-project-include", dict(rec, lines=left[:5]), False))
    if model[0] != "done" or not res.get("ok"):
        return
    rev = rec["_rev"]
    body = [l for i in model[1] for l in res["lines"].get(rev.get(i), ["<missing file %s>" % i])]
    n = len(body)
    if tl[-1] != "" or tl[len(tl) - 1 - n:len(tl) - 1] != body:
        violations.append(viol_order(kind, "generated header body is not the files' contents concatenated in the model's order",
                                     "text-body", {k: v for k, v in rec.items() if k != "_rev"}, True,
                                     "correspondence: print_unified_file"))
        return
    pro = tl[:len(tl) - 1 - n]
    incl = [l for l in pro if l.startswith("#include")]
    other = [l for l in pro if l.strip() and not l.startswith("//") and not l.startswith("#include") and l != "#pragma once"]
    if incl != sorted(set(glob_expected)) or other or pro.count("#pragma once") != 1:
        violations.append(viol_order(kind, "generated header prologue is not {comments, one #pragma once, sorted de-duplicated "
                                     "global includes of the closure}", "text-prologue",
                                     dict({k: v for k, v in rec.items() if k != "_rev"}, includes=incl,
                                          expected=sorted(set(glob_expected)), other=other[:5]), False))


def explore_real(tier, rng, wd, drv, ex, ids, stats, violations):
    units, consts = unit_and_constant_names()
    others = [f for f in ex["files"] if not f.startswith("au/units/") and not f.startswith("au/constants/")] + \
             [f for f in ex["files"] if f.endswith("_fwd.hh")][:8]
    n, n_compile = (60, 5) if tier == "quick" else (400, 16)
    sels = gen_selections(rng, units, consts, others, n, n_compile)
    jobs = [{"units": s["units"], "constants": s["constants"], "mains": s["mains"], "io": s["io"],
             "text": s["id"] < n_compile} for s in sels]
    chunks = [jobs[i::8] for i in range(8)]
    outs = pmap(lambda ch: run_helper(wd, vlib.REPO, ch, timeout=30) if ch else [], chunks, workers=8)
    results = [None] * len(jobs)
    for ci, o in enumerate(outs):
        for k, r in enumerate(o):
            results[ci + 8 * k] = r
    g = [(ids[f], [ids.get(t, 10 ** 6) for t in ex["inc"][f]]) for f in sorted(ex["files"], key=lambda f: ids[f])]
    genc = enc_graph(g)
    rev = {i: n for n, i in ids.items()}
    req, req_names = [], []
    expected_names = []
    for s in sels:
        names = ["au/au.hh"] + ["au/units/%s.hh" % u for u in s["units"]] + \
                ["au/constants/%s.hh" % c.lower() for c in s["constants"]] + list(s["mains"]) + \
                (["au/io.hh"] if s["io"] else [])
        expected_names.append(names)
        req.append("c20.order %s %s" % (genc, enc_ids([ids.get(x, 10 ** 6) for x in names])))
        req_names.append("c20.names %d %s %s %s %s" % (
            ids["au/au.hh"], enc_ids([ids.get("au/units/%s.hh" % u, 10 ** 6) for u in s["units"]]),
            enc_ids([ids.get("au/constants/%s.hh" % c.lower(), 10 ** 6) for c in s["constants"]]),
            enc_ids([ids.get(m, 10 ** 6) for m in s["mains"]]), str(ids["au/io.hh"]) if s["io"] else "-"))
    ans = drv.ask(req + req_names + ["c20.check " + genc])
    chk = vlib.kv(ans[-1])
    if any(chk.get(k) != "1" for k in ("targets", "dupfree", "ranked", "keys")):
        violations.append(viol_order("extract", "the real include graph is not well-formed: %s" % ans[-1], "graph-wf",
                                     {"check": ans[-1]}, True, "Gen_C20_wellFormed"))
    compile_sels = []
    for k, s in enumerate(sels):
        rec = {"tree": "real", "selection": {kk: s[kk] for kk in ("units", "constants", "mains", "io")}}
        model = parse_model(ans[k])
        check_case("real-%d" % k, "order-real", rec, ex["inc"], ids, expected_names[k], results[k], model, stats, violations)
        mn = [rev.get(i) for i in dec_ids(ans[len(sels) + k])]
        if mn != expected_names[k]:
            violations.append(viol_order("order-real", "model `filenames` differs from the script's", "corr-names",
                                         dict(rec, model=mn, expected=expected_names[k]), True, "correspondence: c20.names"))
        if len(stats["samples"]) < 3 and 3 <= len(results[k].get("order", [])) <= 12:
            stats["samples"].append({"request": "c20.order <real graph> " + enc_ids([ids[x] for x in expected_names[k]]),
                                     "model": ans[k][:300], "script_order": results[k]["order"]})
        if s["id"] < n_compile:
            # end to end through the command line, into its own directory
            d = os.path.join(wd, "sel%02d" % s["id"])
            os.makedirs(d, exist_ok=True)
            stats["evaluations"] += 1
            if not results[k].get("ok"):
                continue            # already reported (script fails / does not terminate in-process)
            try:
                p = subprocess.run([sys.executable, SCRIPT] + cli_args(s), cwd=vlib.REPO, timeout=1200,
                                   capture_output=True, text=True, preexec_fn=_limits)
                rc, out, err = p.returncode, p.stdout, p.stderr
            except subprocess.TimeoutExpired:
                violations.append(viol_order("order-real", "make-single-file does not terminate (60 s) on this selection",
                                             "cli-timeout", rec, False))
                continue
            if rc in (-24, -9, 152, 137):
                violations.append(viol_order("order-real", "make-single-file does not terminate (60 s CPU) on this selection",
                                             "cli-timeout", rec, False))
                continue
            if rc != 0:
                violations.append(viol_order("order-real", "make-single-file exits with status %d" % rc, "cli-fails",
                                             dict(rec, stderr=err[-1500:]), False))
                continue
            hp = os.path.join(d, "au.hh")
            with open(hp, "w") as f:
                f.write(out)
            if results[k].get("ok") and out != results[k].get("text"):
                violations.append(viol_order("order-real", "command-line output differs from print_unified_file called in-process",
                                             "cli-vs-inprocess", rec, True, "correspondence: helper"))
            globs = [l for f in closure(ex["inc"], expected_names[k]) for l in ex["glob"].get(f, [])]
            check_text("order-real", dict(rec, _rev=rev), results[k], model, globs, out, violations, stats)
            compile_sels.append({"id": s["id"], "units": s["units"], "constants": s["constants"], "io": s["io"], "header": hp})
    stats["real_selections"] = len(sels)
    stats["real_selection_sizes"] = sorted({len(s["units"]) for s in sels})
    return compile_sels


# ----------------------------------------------------------------------------------------------
# B2. synthetic include trees
# ----------------------------------------------------------------------------------------------

SHAPES = ["sparse", "dense", "chain", "layered", "star", "tree", "shared-deep", "wide"]


def gen_dag(rng, n, shape):
    """Edges i → j only for j < i (then labels are shuffled). Returns dict node → list of includes (file order)."""
    inc = {i: [] for i in range(n)}
    for i in range(1, n):
        lower = list(range(i))
        if shape == "sparse":
            k = rng.choice([0, 1, 1, 2])
        elif shape == "dense":
            k = sum(rng.random() < 0.5 for _ in lower)
        elif shape == "chain":
            inc[i] = [i - 1] + ([rng.choice(lower)] if rng.random() < 0.2 and i > 1 else [])
            inc[i] = list(dict.fromkeys(inc[i]))
            continue
        elif shape == "layered":
            w = 4
            layer = i // w
            lower = list(range(max(0, (layer - 1) * w), layer * w)) if layer > 0 else []
            k = rng.randrange(1, 4)
        elif shape == "star":
            inc[i] = [0] + ([rng.choice(lower)] if rng.random() < 0.3 else [])
            inc[i] = list(dict.fromkeys(inc[i]))
            continue
        elif shape == "tree":
            inc[i] = [(i - 1) // 2]
            continue
        elif shape == "shared-deep":
            # everybody includes a few hubs that themselves form a chain
            h = min(4, i)
            inc[i] = ([i - 1] if i <= 4 else rng.sample(range(h), rng.randrange(1, h + 1)) +
                      ([rng.choice(lower)] if rng.random() < 0.5 else []))
            inc[i] = list(dict.fromkeys(inc[i]))
            continue
        else:  # wide
            k = rng.randrange(0, min(len(lower), 8) + 1)
        k = min(k, len(lower))
        inc[i] = rng.sample(lower, k)
    perm = list(range(n))
    rng.shuffle(perm)
    return {perm[i]: [perm[j] for j in inc[i]] for i in range(n)}


def synth_names(rng, n):
    """Assign file names: node → path; au.hh and io.hh always exist."""
    kinds = {}
    nodes = list(range(n))
    rng.shuffle(nodes)
    kinds[nodes[0]] = "au/au.hh"
    kinds[nodes[1]] = "au/io.hh"
    for x in nodes[2:]:
        r = rng.random()
        if r < 0.4:
            kinds[x] = "au/units/u%d.hh" % x
        elif r < 0.55:
            kinds[x] = "au/constants/c%d.hh" % x
        elif r < 0.7:
            kinds[x] = "au/sub/dir/n%d.hh" % x
        else:
            kinds[x] = "au/n%d.hh" % x
    return kinds


def write_tree(root, dag, path, rng, dup=None, extra_lines=None):
    """Write au/code/<path[k]> for every node. Value chain: v_k = (k+1) + Σ v_include (unsigned wrap)."""
    for k, incs in dag.items():
        p = os.path.join(root, "au", "code", path[k])
        os.makedirs(os.path.dirname(p), exist_ok=True)
        L = []
        if rng.random() < 0.5:
            L += ["// Copyright %d Aurora Operations, Inc." % rng.choice([2022, 2023, 2024]), "//",
                  "// Licensed under the Apache License, Version 2.0", ""]
        if rng.random() < 0.9:
            L += ["#pragma once", ""]
        if rng.random() < 0.5:
            L += ["#include <%s>" % h for h in rng.sample(["cstdint", "cstddef", "utility", "type_traits"], rng.randrange(1, 3))]
            L += [""]
        il = ['#include "%s"' % path[t] for t in incs]
        if dup is not None and k == dup[0]:
            il.insert(rng.randrange(0, len(il) + 1), '#include "%s"' % dup[1])
        L += il
        if rng.random() < 0.3:
            L += ["", "", ""]
        L += ["namespace c20 {", "constexpr unsigned long long v_%d = %dull%s;" %
              (k, k + 1, "".join(" + v_%d" % t for t in incs)), "}  // namespace c20"]
        if extra_lines and k in extra_lines:
            L += extra_lines[k]
        with open(p, "w") as f:
            f.write("\n".join(L) + "\n")


def values(dag):
    memo = {}

    def v(k):
        if k not in memo:
            memo[k] = (k + 1 + sum(v(t) for t in dag[k])) % (1 << 64)
        return memo[k]
    import sys as _s
    _s.setrecursionlimit(10000)
    return {k: v(k) for k in dag}


def explore_synth(tier, rng, wd, drv, stats, violations):
    n_dags = 200 if tier == "quick" else 3000
    n_compile = 60 if tier == "quick" else 400
    cases = []          # (dag id, root, dag, path, sel)
    droot = os.path.join(wd, "synth")
    for d in range(n_dags):
        shape = SHAPES[d % len(SHAPES)] if d < 4 * len(SHAPES) else rng.choice(SHAPES)
        n = rng.choice([2, 3, 4, 5, 6, 8, 10, 12, 16, 20, 24, 32, 40]) if d % 10 else rng.choice([2, 3, 60, 90])
        dag = gen_dag(rng, n, shape)
        path = synth_names(rng, n)
        root = os.path.join(droot, "t%04d" % d)
        write_tree(root, dag, path, rng)
        units = [k for k in dag if path[k].startswith("au/units/")]
        consts = [k for k in dag if path[k].startswith("au/constants/")]
        rest = [k for k in dag if k not in units and k not in consts]
        for _ in range(3):
            us = rng.sample(units, rng.randrange(0, min(len(units), 5) + 1))
            cs = rng.sample(consts, rng.randrange(0, min(len(consts), 3) + 1))
            ms = rng.sample(rest, rng.randrange(0, 3)) if rng.random() < 0.4 else []
            if us and rng.random() < 0.15:
                us.append(rng.choice(us))
            sel = {"units": ["u%d" % k for k in us], "constants": ["C%d" % k for k in cs],
                   "mains": [path[k] for k in ms], "io": rng.random() < 0.5, "_nodes": (us, cs, ms)}
            cases.append((d, root, dag, path, sel, shape))
    # implementation: one helper process per tree, in parallel
    by_tree = {}
    for i, c in enumerate(cases):
        by_tree.setdefault(c[0], []).append(i)
    n_text = set()
    trees = sorted(by_tree)
    for d in trees[:n_compile]:
        n_text.add(by_tree[d][0])

    def work(d):
        idx = by_tree[d]
        jobs = [{"units": cases[i][4]["units"], "constants": cases[i][4]["constants"], "mains": cases[i][4]["mains"],
                 "io": cases[i][4]["io"], "text": i in n_text} for i in idx]
        return run_helper(wd, cases[idx[0]][1], jobs, timeout=10)
    groups = [trees[i::16] for i in range(16)]
    results = [None] * len(cases)

    def work_group(gr):
        return [(d, work(d)) for d in gr]
    for out in pmap(work_group, groups, workers=16):
        for d, rs in out:
            for i, r in zip(by_tree[d], rs):
                results[i] = r
    # model
    req = []
    metas = []
    for (d, root, dag, path, sel, shape) in cases:
        ids = {path[k]: k for k in dag}
        g = [(k, dag[k]) for k in sorted(dag)]
        aun = [k for k in dag if path[k] == "au/au.hh"][0]
        ion = [k for k in dag if path[k] == "au/io.hh"][0]
        us, cs, ms = sel["_nodes"]
        names = [aun] + us + cs + ms + ([ion] if sel["io"] else [])
        req.append("c20.order %s %s" % (enc_graph(g), enc_ids(names)))
        metas.append((ids, [path[k] for k in names]))
    ans = drv.ask(req)
    compile_jobs = []
    for i, (d, root, dag, path, sel, shape) in enumerate(cases):
        ids, names = metas[i]
        inc = {path[k]: [path[t] for t in dag[k]] for k in dag}
        rec = {"tree": "synthetic", "shape": shape, "graph": {path[k]: [path[t] for t in dag[k]] for k in dag},
               "selection": {k: sel[k] for k in ("units", "constants", "mains", "io")}}
        model = parse_model(ans[i])
        check_case("synth-%d" % i, "order-synth", rec, inc, ids, names, results[i], model, stats, violations)
        stats["shapes"][shape] = stats["shapes"].get(shape, 0) + 1
        if len(stats["samples"]) < 6 and 4 <= len(dag) <= 8:
            stats["samples"].append({"request": req[i], "model": ans[i], "script_order": results[i].get("order")})
        if i in n_text and results[i].get("ok"):
            rev = {k: path[k] for k in dag}
            globs = []   # synthetic trees: prologue checked through the independent scan below
            for f in closure(inc, names):
                p, gl, _ = extract_c20.scan(os.path.join(root, "au", "code", f))
                globs += gl
            check_text("order-synth", dict(rec, _rev=rev), results[i], model, globs, results[i]["text"], violations, stats)
            compile_jobs.append((i, root, dag, path, names, results[i]["text"], rec))
    # the compiler as statement-level oracle: the single file and the multi-header tree must both compile
    # and define the same values (each v_k exactly once, after everything it adds up)
    def comp(job):
        i, root, dag, path, names, text, rec = job
        vals = values(dag)
        rev = {path[k]: k for k in dag}
        sdir = os.path.join(root, "single")
        os.makedirs(sdir, exist_ok=True)
        with open(os.path.join(sdir, "au.hh"), "w") as f:
            f.write(text)
        asserts = "".join('static_assert(c20::v_%d == %dull, "value");\n' % (rev[nm], vals[rev[nm]]) for nm in dict.fromkeys(names))
        s1 = os.path.join(root, "single.cc")
        with open(s1, "w") as f:
            f.write('#include "au.hh"\n#include "au.hh"\n' + asserts + "int main() {}\n")
        s2 = os.path.join(root, "multi.cc")
        with open(s2, "w") as f:
            f.write("".join('#include "%s"\n' % nm for nm in names) + asserts + "int main() {}\n")
        r1 = c20_cxx.run(["g++", "-std=c++14", "-fsyntax-only", "-I", sdir, s1], timeout=900)
        r2 = c20_cxx.run(["g++", "-std=c++14", "-fsyntax-only", "-I", os.path.join(root, "au", "code"), s2], timeout=900)
        return job, r1, r2
    for job, r1, r2 in pmap(comp, compile_jobs):
        i, root, dag, path, names, text, rec = job
        stats["evaluations"] += 2
        stats["synth_compiles"] += 2
        if r2[0] != 0:
            # trees with a header lacking `#pragma once` reached along two paths are rejected by the multi-header
            # packaging itself: not a statement about the script
            stats["synth_multi_rejected"] += 1
            continue
        if r1[0] != 0:
            violations.append(viol_order("order-synth", "synthetic tree: multi-header build compiles but the generated single file "
                                         "does not (a definition is missing, repeated or precedes what it needs)",
                                         "synth-compile", dict(rec, diagnostic=(r1[1] + r1[2])[-1200:]), False))
    stats["synthetic_trees"] = n_dags
    stats["synthetic_cases"] = len(cases)
    return droot


def explore_malformed(tier, rng, wd, drv, stats, violations):
    """Outside the property's quantifier; ties the model's `diverges` / `missing` answers (theorems
    C20_full_counterexample, C20_cycle_diverges, C20_missing_file) to the script."""
    n = 6 if tier == "quick" else 24
    jobs = []
    for j in range(n):
        kind = ["dup", "cycle", "missing", "self"][j % 4]
        size = rng.choice([3, 5, 8])
        dag = gen_dag(rng, size, "sparse" if j % 2 else "chain")
        path = synth_names(rng, size)
        aun = [k for k in dag if path[k] == "au/au.hh"][0]
        # make au.hh reach something so that the defect is on the path
        others = [k for k in dag if k != aun]
        for t in others:
            if t not in dag[aun] and aun not in closure(dag, [t]):
                dag[aun].append(t)
        root = os.path.join(wd, "malformed", "m%02d" % j)
        g = {k: list(v) for k, v in dag.items()}
        dup = None
        if kind == "dup" and not any(g[k] for k in g):
            kind = "self"
        if kind == "dup":
            reach = closure(g, [aun])
            src = rng.choice([k for k in g if g[k] and k in reach] or [k for k in g if g[k]])
            t = rng.choice(g[src])
            dup = (src, path[t])
            write_tree(root, dag, path, rng, dup=dup)
            # the script collects both lines
            p, _, _ = extract_c20.scan(os.path.join(root, "au", "code", path[src]))
            inv = {path[k]: k for k in g}
            g[src] = [inv[x] for x in p]
        elif kind == "cycle":
            leafs = [k for k in g if k != aun and k in closure(g, [aun])]
            a = rng.choice(leafs or [aun])
            g[a] = g[a] + [aun]
            write_tree(root, g, path, rng)
        elif kind == "self":
            a = rng.choice([k for k in g if k in closure(g, [aun])])
            g[a] = g[a] + [a]
            write_tree(root, g, path, rng)
        else:
            a = rng.choice([k for k in g if k in closure(g, [aun])])
            g[a] = g[a] + [size + 5]
            path2 = dict(path)
            path2[size + 5] = "au/gone%d.hh" % j
            # write all but the missing one
            write_tree(root, {k: v for k, v in g.items()}, path2, rng)
            path = path2
        jobs.append((kind, root, g, path, aun))

    def work(job):
        kind, root, g, path, aun = job
        return run_helper(wd, root, [{"units": [], "constants": [], "mains": [], "io": False}], timeout=4)[0]
    res = pmap(work, jobs)
    req = ["c20.order %s %d" % (enc_graph([(k, g[k]) for k in sorted(g)]), aun) for (_, _, g, _, aun) in jobs]
    ans = drv.ask(req)
    for (kind, root, g, path, aun), r, a in zip(jobs, res, ans):
        stats["malformed"] += 1
        m = parse_model(a)
        rec = {"tree": "malformed", "defect": kind, "graph": {path[k]: [path.get(t, "?") for t in g[k]] for k in g}}
        if r.get("error") == "timeout":
            impl = ("diverges",)
        elif r.get("error") == "missing":
            f = r["file"]
            f = f[len("au/code/"):] if f.startswith("au/code/") else f
            inv = {v: k for k, v in path.items()}
            impl = ("missing", inv.get(f, -1))
        elif r.get("ok"):
            impl = ("done",)
        else:
            impl = ("error", r.get("error"))
        if impl[0] != m[0] or (impl[0] == "missing" and impl[1] != m[1]):
            violations.append(viol_order("order-malformed", "on a malformed tree (%s) the script %s but the model says %s" %
                                         (kind, impl, m[:2]), "corr-malformed", dict(rec, impl=str(impl), model=a), True,
                                         "correspondence: divergence / missing file"))
        stats["malformed_outcomes"][impl[0]] = stats["malformed_outcomes"].get(impl[0], 0) + 1


# ----------------------------------------------------------------------------------------------
# B3. the CMake packaging: the installed header set of target `au` is closed under project includes
# ----------------------------------------------------------------------------------------------

def explore_cmake(ex, stats, violations):
    path = os.path.join(vlib.AU_INC, "au", "CMakeLists.txt")
    txt = re.sub(r"#[^\n]*", "", open(path).read())
    targets = {}
    for m in re.finditer(r"header_only_library\(\s*NAME\s+(\w+)(.*?)\n\s*\)", txt, re.S):
        body = m.group(2)
        hs = re.search(r"HEADERS(.*?)(?:DEPS|$)", body, re.S)
        targets[m.group(1)] = ["au/" + h for h in re.findall(r"[\w/.]+\.hh", hs.group(1))] if hs else []
    listed_anywhere = set(re.findall(r"[\w/]+\.hh", txt))
    au = targets.get("au", [])
    stats["cmake_au_headers"] = len(au)
    if not au:
        violations.append(viol_order("cmake", "cannot find header_only_library(NAME au HEADERS …) in au/code/au/CMakeLists.txt",
                                     "cmake-parse", {}, True, "correspondence: CMake parse"))
        return
    auset = set(au)
    for h in au:
        stats["evaluations"] += 1
        if h not in ex["inc"]:
            violations.append(viol_order("cmake", "CMake target `au` lists %s which does not exist" % h, "cmake-missing:" + h,
                                         {"header": h}, False))
    for h in sorted(closure(ex["inc"], [x for x in au if x in ex["inc"]]) - auset):
        violations.append(viol_order("cmake", "%s is included (transitively) by the installed headers of CMake target `au` but is not "
                                     "in its HEADERS: the installed package is not self-contained" % h, "cmake-closure:" + h,
                                     {"header": h}, False))
    for h in ex["files"]:
        if h.endswith("_test_lib.hh"):
            continue        # support header of a bazel-only test (fwd_test), not a public header
        stats["evaluations"] += 1
        if h[len("au/"):] not in listed_anywhere:
            violations.append(viol_order("cmake", "%s is not part of any CMake target in au/code/au/CMakeLists.txt" % h,
                                         "cmake-unlisted:" + h, {"header": h}, False))


def main(tier, seed):
    t0 = time.time()
    wd = workdir(PROP)
    rng = rng_for(PROP, seed)
    violations = []
    # A. extraction (before the Lean build, which consumes it)
    ex, ids, changed = extract_c20.regenerate()
    for f, l in ex["unrecognised"]:
        violations.append(viol_order("extract", "include line in %s is not recognised by make-single-file's regex and would be "
                                     "left in (or dropped from) the single-file output: %r" % (f, l), "unrecognised-include",
                                     {"file": f, "line": l}, False))
    for f, t in ex["dangling"]:
        violations.append(viol_order("extract", "%s includes %s which does not exist" % (f, t), "dangling-include",
                                     {"file": f, "target": t}, False))
    proof = prove(PROP)
    stats = {"evaluations": 0, "nontrivial": set(), "repops": 0, "sizes": [], "samples": [], "texts": 0, "shapes": {},
             "synth_compiles": 0, "synth_multi_rejected": 0, "malformed": 0, "malformed_outcomes": {},
             "rounds_hist": {}, "in_pass_cascades": 0,
             "graph_files": len(ex["files"]), "graph_edges": sum(len(v) for v in ex["inc"].values()),
             "generated_changed": changed}
    cxx_stats, observations = {}, []
    try:
        drv = Driver()
        t1 = time.time()
        compile_sels = explore_real(tier, rng, wd, drv, ex, ids, stats, violations)
        stats["real_s"] = round(time.time() - t1, 1)
        explore_cmake(ex, stats, violations)
        t1 = time.time()
        explore_synth(tier, rng, wd, drv, stats, violations)
        explore_malformed(tier, rng, wd, drv, stats, violations)
        stats["synth_s"] = round(time.time() - t1, 1)
        shutil.rmtree(os.path.join(wd, "synth"), ignore_errors=True)
        t1 = time.time()
        cwd = os.path.join(wd, "cxx")
        os.makedirs(cwd, exist_ok=True)
        cxx_stats, cxx_viol, observations = c20_cxx.explore(tier, seed, rng, cwd, compile_sels)
        violations += cxx_viol
        stats["cxx_s"] = round(time.time() - t1, 1)
    except Exception as e:  # a broken harness is a broken tie, never a silent pass
        import traceback
        violations.append({"what": "check infrastructure failed: %r" % (e,), "class": "infrastructure",
                           "rec": {"kind": "infrastructure", "trace": traceback.format_exc()[-3000:]}, "no_input": True,
                           "broken": "harness"})
    pending = [v for v in violations if is_pending(v)]
    violations = [v for v in violations if not is_pending(v)]
    for c in sorted({v.get("class") for v in pending}):
        print("PENDING-FINDING: property=%s %s" % (PROP, c))
    # observation (never a violation by itself): headers without `#pragma once`; whether that is harmful is decided
    # by the double-include probe of c20_cxx, which must accept every public header included twice
    nopragma = [f for f in ex["files"]
                if not re.search(r"^#pragma once", open(os.path.join(vlib.AU_INC, f)).read(), re.M)]
    flagged = {v.get("rec", {}).get("header") for v in violations if v.get("rec", {}).get("probe") == "double-include"}
    observations.append({"probe": "no-pragma-once", "headers": nopragma,
                         "harmless_this_run": [f for f in nopragma if f not in flagged],
                         "note": "headers lacking `#pragma once`; harmless iff the double-include probe accepts them "
                                 "(declaration-only headers such as units/celsius_fwd.hh)"})
    sizes = stats.pop("sizes")
    nontrivial = stats.pop("nontrivial")
    cov = {
        "evaluations": stats["evaluations"] + int(cxx_stats.get("evaluations", 0)),
        "distinct_nontrivial": len(nontrivial),
        "rule": "order cases = (include tree, selection): real tree x seeded selections (empty, full, every single constant, "
                "size classes 1-5 / 6-29 / 30-57, repeated names, extra main files) x {io, noio}; synthetic trees of 8 shapes, "
                "2-90 files, 3 selections each; compared exactly (dictionary order and emitted order) with the compiled model, "
                "and judged by the independent closure/once/includes-first oracle; distinct_nontrivial = cases with >= 3 files in "
                "which sort_topologically really reorders. Compiler cases: see distribution.cxx",
        "samples": stats.pop("samples"),
        "exhaustive": False,
        "distribution": dict(stats, order_sizes={"min": min(sizes) if sizes else 0, "max": max(sizes) if sizes else 0,
                                                 "mean": round(sum(sizes) / max(1, len(sizes)), 1)},
                             cxx=cxx_stats, observations=observations,
                             pending_findings=sorted({(v.get("class"), v["what"][:200]) for v in pending})),
    }
    if os.environ.get("C20_KEEP") != "1":
        shutil.rmtree(wd, ignore_errors=True)
    return finish(PROP, tier, seed, t0, proof, cov, violations, ASSUME)


def replay(path):
    rec = json.load(open(path))
    r = rec.get("rec", {})
    print(json.dumps({k: v for k, v in r.items() if k not in ("source", "trace")}, indent=1)[:4000])
    kind = r.get("kind")
    wd = workdir(PROP + "_replay")
    try:
        if kind == "cxx":
            import c20_cxx
            rc = c20_cxx.replay(r, wd)
        elif kind in ("order-real", "order-synth"):
            rc = replay_order(r, wd)
        else:
            print("replay: this record names a broken obligation / tie rather than an input:", rec.get("broken") or rec.get("what"))
            rc = 1
    finally:
        shutil.rmtree(wd, ignore_errors=True)
    if rc:
        print("VIOLATION property=%s replay=%s" % (PROP, path))
    else:
        print("replay: property holds on this case")
    return rc


def replay_order(r, wd):
    sel = r["selection"]
    drv = Driver()
    if r.get("tree") == "real":
        ex = extract_c20.extract()
        ids = extract_c20.topo_ids(ex["files"], ex["inc"])
        inc, root = ex["inc"], vlib.REPO
    else:
        inc = r["graph"]
        ids = {f: i for i, f in enumerate(sorted(inc))}
        root = os.path.join(wd, "tree")
        for f, l in inc.items():
            p = os.path.join(root, "au", "code", f)
            os.makedirs(os.path.dirname(p), exist_ok=True)
            with open(p, "w") as fh:
                fh.write("#pragma once\n" + "".join('#include "%s"\n' % t for t in l) + "// %s\n" % f)
    names = ["au/au.hh"] + ["au/units/%s.hh" % u for u in sel["units"]] + \
            ["au/constants/%s.hh" % c.lower() for c in sel["constants"]] + list(sel["mains"]) + \
            (["au/io.hh"] if sel["io"] else [])
    res = run_helper(wd, root, [{"units": sel["units"], "constants": sel["constants"], "mains": sel["mains"], "io": sel["io"]}])[0]
    g = [(ids[f], [ids.get(t, 10 ** 6) for t in inc[f]]) for f in sorted(inc, key=lambda f: ids[f])]
    ans = drv.ask(["c20.order %s %s" % (enc_graph(g), enc_ids([ids.get(x, 10 ** 6) for x in names]))])[0]
    rev = {i: n for n, i in ids.items()}
    print("script:", res.get("order") if res.get("ok") else res)
    m = parse_model(ans)
    print("model :", [rev.get(i) for i in m[1]] if m[0] == "done" else m)
    if not res.get("ok"):
        return 1
    bad = oracle_order(inc, names, res["order"])
    print("oracle:", bad or "closure / once / includes-first hold")
    same = m[0] == "done" and [rev.get(i) for i in m[1]] == res["order"]
    return 1 if (bad or not same) else 0

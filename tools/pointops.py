"""C09: QuantityPoint affine semantics — correspondence between the Lean model (AuModel.Point) and the
real headers, plus the statement-level oracle (Fraction arithmetic on positions).

A *point unit* is (scale sn/sd, origin = oc x on/od): generated as
    struct PUk : decltype(VBase{} * mag<sn>() / mag<sd>()) {
        static constexpr auto origin() { return make_quantity<decltype(VBase{} * mag<on>() / mag<od>())>(oc); } };
Instance kinds:
  E (r, n, u, u'):   explicit-rep conversion  make_quantity_point<u>(r v).coerce_in<n>(u')
  O (r1, r2, u1, u2): the six comparisons and p1 - p2 through using_common_point_unit
  Q (r1, r2, u1, u2): point +/- quantity (oracle only; compile gate = the compiler's verdict via a probe)
Forbidden operations are negative compile probes.
"""
import math
import os
import time
from fractions import Fraction

from vlib import INT_TYPES, Driver, cxx, kv, pmap, run, ty_hi, ty_lo, SAN_CLANG, SAN_GCC
from intconv import _cheap
from mixedops import (RetryDriver, CTYPE, UBSAN_ENV, common_ty, in_range, promote, rat_gcd, run_harness, clip, trunc_frac, kmax)

CMP = ["eq", "ne", "lt", "le", "gt", "ge"]
FCT = dict(CTYPE, f32="float", f64="double")
FPREC = {"f32": 24, "f64": 53}


def intermediate(r, n):
    c = common_ty(r, n)
    if INT_TYPES[n][2]:
        return "i" + str(INT_TYPES[c][1])
    return c


def U(sn, sd, oc, on, od):
    s, o = Fraction(sn, sd), Fraction(on, od)
    return {"sn": s.numerator, "sd": s.denominator, "oc": oc, "on": o.numerator, "od": o.denominator}


def scale(u):
    return Fraction(u["sn"], u["sd"])


def ounit(u):
    return Fraction(u["on"], u["od"])


def origin(u):
    return u["oc"] * ounit(u)


def ukey(u):
    return f"{u['sn']} {u['sd']} {u['oc']} {u['on']} {u['od']}"


LIB_UNITS = {
    "K": U(1, 1, 0, 1, 1000), "C": U(1, 1, 273150, 1, 1000), "F": U(5, 9, 459670, 5, 9000),
    "mK": U(1, 1000, 0, 1, 1000), "cC": U(1, 100, 27315, 1, 100), "kF": U(5000, 9, 459670, 5, 9000),
    "R": U(5, 9, 0, 5, 9000), "dC": U(1, 10, 273150, 1, 1000),
}


# The library's own temperature units.  `oc`/`on`/`od` = None marks a unit without an origin() member (origin Zero): for the
# model and the oracle it is described, per instance, as origin 0 expressed in the OTHER unit's origin unit (that is the
# unit the library's OriginDisplacement then has).
REAL_UNITS = [
    {"cpp": "au::Kelvins", "s": (1, 1), "o": None},
    {"cpp": "au::Celsius", "s": (1, 1), "o": (27315, 1, 100)},
    {"cpp": "au::Fahrenheit", "s": (5, 9), "o": (45967, 5, 900)},
    {"cpp": "au::Rankines", "s": (5, 9), "o": None},
    {"cpp": "au::Milli<au::Kelvins>", "s": (1, 1000), "o": None},
    {"cpp": "au::Centi<au::Celsius>", "s": (1, 100), "o": (27315, 1, 100)},
    {"cpp": "au::Kilo<au::Fahrenheit>", "s": (5000, 9), "o": (45967, 5, 900)},
    {"cpp": "au::Milli<au::Celsius>", "s": (1, 1000), "o": (27315, 1, 100)},
]


def real_pair(a, b):
    """Describe two library units as (scale, origin) records for the model/oracle."""
    def one(x, other):
        o = x["o"] or ((0,) + tuple(other["o"][1:]) if other["o"] else (0, 1, 100))
        u = U(x["s"][0], x["s"][1], o[0], o[1], o[2])
        u["cpp"] = x["cpp"]
        return u
    return one(a, b), one(b, a)


def gen_units(rng, n):
    pool = list(LIB_UNITS.values())
    for _ in range(n):
        sn, sd = rng.choice([1, 1, 2, 3, 5, 9, 10, 100]), rng.choice([1, 1, 2, 3, 4, 9, 10, 1000])
        on, od = rng.choice([(1, 1), (1, 10), (1, 1000), (sn, sd), (sn, sd * 10), (5, 9)])
        oc = rng.choice([0, 1, -1, 7, -40, 100, 27315, -273150, rng.randrange(-10 ** 6, 10 ** 6)])
        if Fraction(on, od) == 1:
            # the origin's unit would be VBase itself: a unit struct of scale 1 (derived from VBase) cannot be ordered
            # against VBase by the library ("Broken strict total ordering", cf. finding F10) - not a C09 matter
            on, od = 1, 2
        pool.append(U(sn, sd, oc, on, od))
    return pool


REPS_E = [("i32", "i32"), ("i64", "i64"), ("i32", "i64"), ("i64", "i32"), ("i16", "i32"), ("i16", "i16"), ("i8", "i32"),
          ("u32", "i32"), ("u32", "u32"), ("u64", "u64"), ("i32", "u32"), ("u16", "i64"), ("i32", "i16"), ("u8", "i32"),
          ("i64", "u64"), ("u64", "i64")]
REPS_O = [("i32", "i32"), ("i64", "i64"), ("i32", "i64"), ("i16", "i32"), ("i64", "i16"), ("u32", "u32"), ("u64", "u64"),
          ("u32", "u64"), ("i16", "i16"), ("i8", "i64")]


def directed_instances(rng, tier, units):
    """Shapes that every run must judge (clause audit): the library's own units, identity and point-equivalent
    conversions, a negative origin, implicit-rep conversions, point +/- quantity, floating-point reps."""
    out = []
    K, C, F = LIB_UNITS["K"], LIB_UNITS["C"], LIB_UNITS["F"]
    neg = U(1, 2, -54630, 1, 100)                 # origin -546.30
    c_alt = U(1, 1, 27315, 1, 100)                # Celsius-like with the origin spelled in another unit: point-equivalent twin
    # the library's real units: explicit conversions and comparisons over ordered pairs
    pairs = [(a, b) for a in REAL_UNITS for b in REAL_UNITS if a is not b]
    rng.shuffle(pairs)
    fixed = [(REAL_UNITS[1], REAL_UNITS[0]), (REAL_UNITS[0], REAL_UNITS[1]), (REAL_UNITS[1], REAL_UNITS[2]), (REAL_UNITS[2], REAL_UNITS[1]),
             (REAL_UNITS[2], REAL_UNITS[0]), (REAL_UNITS[5], REAL_UNITS[4]), (REAL_UNITS[6], REAL_UNITS[1]), (REAL_UNITS[0], REAL_UNITS[4])]
    npair = 10 if tier == "quick" else 40
    for j, (a, b) in enumerate(fixed + [p for p in pairs if p not in fixed][:npair]):
        u, v = real_pair(a, b)
        r, n = [("i32", "i32"), ("i64", "i64"), ("i32", "i64"), ("i64", "i32"), ("i16", "i32")][j % 5]
        out.append({"kind": "E", "r1": r, "r2": n, "u1": u, "u2": v, "why": "library units"})
        if j < 8:
            out.append({"kind": "O", "r1": r, "r2": n, "u1": u, "u2": v, "why": "library units"})
            out.append({"kind": "F", "r1": ["f64", "f32", "i32", "f64"][j % 4], "r2": ["f64", "f32", "f64", "f32"][j % 4], "u1": u, "u2": v, "why": "library units, float"})
        if j < 4:
            out.append({"kind": "Q", "r1": "i32", "r2": ["i32", "i64"][j % 2], "u1": u, "u2": v, "why": "library units"})
    # narrowing explicit conversions whose source and destination differ in signedness (the intermediate rep must be the
    # SIGNED common type when the destination is signed, whatever the widths): permanent list, each with a unit change that
    # divides (finer -> coarser), one with a general rational ratio, and one that only multiplies
    cK = U(1, 100, 0, 1, 100)
    narrowing = [("u64", "i32"), ("u64", "i16"), ("u64", "i8"), ("u32", "i16"), ("u32", "i8"), ("u16", "i8"),
                 ("i64", "u32"), ("i64", "u16"), ("i64", "u8"), ("i32", "u16"), ("i32", "u8"), ("i16", "u8")]
    for (r, n) in narrowing:
        for (u, v) in ((cK, C), (cK, F), (C, cK), (LIB_UNITS["mK"], LIB_UNITS["cC"])):
            out.append({"kind": "E", "r1": r, "r2": n, "u1": u, "u2": v, "why": "narrowing, sign-changing reps"})
    # identity, point-equivalent twin, negative origin
    for (u, v) in ((C, C), (C, c_alt), (c_alt, C), (neg, K), (K, neg), (neg, F)):
        out.append({"kind": "E", "r1": "i32", "r2": "i32", "u1": u, "u2": v, "why": "identity/twin/negative origin"})
        out.append({"kind": "E", "r1": "i16", "r2": "i64", "u1": u, "u2": v, "why": "identity/twin/negative origin"})
        if origin(u) != origin(v) or scale(u) != scale(v):
            # (two distinct but point-equivalent unit structs cannot be ordered by the library - "Broken strict total
            # ordering", the F10 family - so the twin pair is exercised by conversions only)
            out.append({"kind": "O", "r1": "i32", "r2": "i64", "u1": u, "u2": v, "why": "identity/twin/negative origin"})
    # implicit-rep conversions to a finer unit (the only ones the policy admits for integers)
    mK, cC, dC = LIB_UNITS["mK"], LIB_UNITS["cC"], LIB_UNITS["dC"]
    fine = U(1, 9000, 0, 1, 9000)
    for (u, v) in ((C, mK), (K, mK), (C, cC), (C, dC), (F, fine), (C, fine), (neg, U(1, 100, 0, 1, 100)), (C, C), (C, c_alt), (mK, K)):
        for r in ("i32", "i64", "u32", "i16"):
            out.append({"kind": "M", "r1": r, "r2": r, "u1": u, "u2": v, "why": "implicit conversion"})
    # point +/- quantity: quantity units with and without an origin of their own (it must be ignored)
    qunits = [K, C, F, mK, U(3, 2, 12345, 1, 10), fine]
    for j, (u, v) in enumerate([(C, K), (C, F), (F, C), (K, mK), (mK, C), (neg, qunits[4]), (C, fine), (F, F), (dC, qunits[4]), (cC, K)]):
        r1, r2 = [("i32", "i32"), ("i64", "i32"), ("i32", "i64"), ("i16", "i32"), ("u32", "u32")][j % 5]
        out.append({"kind": "Q", "r1": r1, "r2": r2, "u1": u, "u2": v, "why": "point +/- quantity"})
    # floating-point reps
    fl = [("f64", "f64"), ("f32", "f32"), ("i32", "f64"), ("f64", "f32"), ("i64", "f64"), ("f32", "f64")]
    upairs = [(C, K), (C, F), (F, C), (K, C), (mK, F), (neg, C), (C, c_alt), (cC, K)] + [(rng.choice(units), rng.choice(units)) for _ in range(4 if tier == "quick" else 24)]
    for j, (u, v) in enumerate(upairs):
        r, n = fl[j % len(fl)]
        out.append({"kind": "F", "r1": r, "r2": n, "u1": u, "u2": v, "why": "floating rep"})
    return out


def gen_instances(rng, tier):
    nE, nO = (64, 36) if tier == "quick" else (384, 200)
    units = gen_units(rng, 10 if tier == "quick" else 30)
    lib = list(LIB_UNITS.values())
    out = []
    # every ordered (source rep, destination rep) pair of the 8 integral reps, in an order drawn from the seed: with nE >= 64
    # each pair is judged in every run (widening, narrowing, sign-changing and mixed ones alike)
    all_pairs = [(a, b) for a in INT_TYPES for b in INT_TYPES]
    rng.shuffle(all_pairs)
    for k in range(nE):
        r, n = all_pairs[k % len(all_pairs)]
        if k < len(all_pairs):
            u, v = rng.sample(lib, 2)
        else:
            u, v = rng.choice(units), rng.choice(units)
        out.append({"kind": "E", "r1": r, "r2": n, "u1": u, "u2": v, "why": "grid"})
    for k in range(nO):
        r1, r2 = REPS_O[k % len(REPS_O)]
        if k < 2 * len(REPS_O):
            u, v = rng.sample(lib, 2)
        else:
            u, v = rng.choice(units), rng.choice(units)
        if u == v or (scale(u) == scale(v) and origin(u) == origin(v)):
            continue        # identical, or distinct point-equivalent structs (the library cannot order those: F10 family)
        out.append({"kind": "O", "r1": r1, "r2": r2, "u1": u, "u2": v, "why": "grid"})
    out = directed_instances(rng, tier, units) + out
    res, seen = [], set()
    for ins in out:
        key = (ins["kind"], ins["r1"], ins["r2"], ukey(ins["u1"]), ukey(ins["u2"]), ins["u1"].get("cpp"), ins["u2"].get("cpp"))
        if key in seen:
            continue
        seen.add(key)
        ins["id"] = len(res)
        res.append(ins)
    return res


# ------------------------------------------------------------------------------------------------
# Statement-level description of the conversions (independent of the Lean model)
# ------------------------------------------------------------------------------------------------

INT_LO, INT_HI = -(1 << 31), (1 << 31) - 1


def explicit_plan(r, n, u, u2):
    """Constants of the documented algorithm of in<n>(u2): x -> trunc((x*s + o - o2)/s2), computed as
    Y = x*kA - B0 (count of the common unit CU of U and the displacement's unit), q = trunc(Y*N/D).
    Returns None when the displacement is not a valid `int` constant."""
    calc = intermediate(r, n)
    P = promote(calc)
    c2 = common_ty(P, n)
    s, s2 = scale(u), scale(u2)
    o, o2 = origin(u), origin(u2)
    if o == o2:
        kA, B0, dv, CU = 1, 0, 0, s
    else:
        ud = rat_gcd(ounit(u2), ounit(u))
        a, b = u2["oc"] * (ounit(u2) / ud), u["oc"] * (ounit(u) / ud)
        dvf = a - b
        if not (a.denominator == 1 and b.denominator == 1 and INT_LO <= a <= INT_HI and INT_LO <= b <= INT_HI and INT_LO <= dvf <= INT_HI):
            return None
        dv = int(dvf)
        CU = rat_gcd(s, ud)
        kA, kD = s / CU, ud / CU
        assert kA.denominator == 1 and kD.denominator == 1
        kA, kD = int(kA), int(kD)
        B0 = dv * kD
    f = CU / s2
    N, D = f.numerator, f.denominator
    plan = {"calc": calc, "P": P, "c2": c2, "pc2": promote(c2), "n": n, "kA": kA, "B0": B0, "dv": dv, "N": N, "D": D,
            "kD": (B0 // dv if dv else 1)}
    # self-check of the identity trunc((x*s + o - o2)/s2) == trunc((x*kA - B0)*N/D)
    for x in (0, 1, -7, 12345):
        assert (x * s + o - o2) / s2 == Fraction((x * kA - B0) * N, D)
    return plan


def explicit_oracle(plan, r, v):
    """(in_scope, expected) for one value."""
    if plan is None:
        return False, None
    calc, P, c2, pc2, n = plan["calc"], plan["P"], plan["c2"], plan["pc2"], plan["n"]
    kA, B0, dv, N, D = plan["kA"], plan["B0"], plan["dv"], plan["N"], plan["D"]
    Y = v * kA - B0
    q = trunc_frac(Fraction(Y * N, D))
    ok = (in_range(calc, v) and in_range(calc, dv) and in_range(calc, v * kA) and in_range(calc, B0) and in_range(P, Y)
          and in_range(c2, Y) and in_range(pc2, Y * N) and in_range(c2, q) and in_range(n, q))
    return ok, q


def common_point_unit(u1, u2):
    """Origin = the smaller origin; scale = rational gcd of the scales and of the units of the non-zero
    displacements from the common origin (the displacement's unit is the rational gcd of the two origins' units)."""
    o1, o2 = origin(u1), origin(u2)
    co = u1 if (o1 < o2 or (o1 == o2 and u1["oc"] < u2["oc"])) else u2
    g = rat_gcd(scale(u1), scale(u2))
    for u in (u1, u2):
        if origin(u) != origin(co):
            g = rat_gcd(g, rat_gcd(ounit(u), ounit(co)))
    return {"scale": g, "origin": origin(co), "unit": co}


def implicit_steps(R, u, cpu, v):
    """Exact intermediate values of `rep_cast<R>(p).as(common point unit)` with the types they must fit."""
    s = scale(u)
    co = cpu["unit"]
    steps = [(v, R)]
    if origin(u) == cpu["origin"]:
        f = s / cpu["scale"]
        steps += [(v * f, R)]
        return steps, v * f
    ud = rat_gcd(ounit(u), ounit(co))
    a, b = u["oc"] * (ounit(u) / ud), co["oc"] * (ounit(co) / ud)
    dv = a - b
    steps += [(a, "i32"), (b, "i32"), (dv, "i32"), (dv, R)]
    CU = rat_gcd(s, ud)
    kA, kD = s / CU, ud / CU
    Y = v * kA + dv * kD
    steps += [(v * kA, R), (dv * kD, R), (Y, promote(R)), (Y, R)]
    f = CU / cpu["scale"]
    steps += [(Y * f, R)]
    return steps, Y * f


def steps_ok(steps):
    return all(x.denominator == 1 and in_range(t, x.numerator) for (x, t) in ((Fraction(a), t) for a, t in steps))


# ------------------------------------------------------------------------------------------------
# Harness
# ------------------------------------------------------------------------------------------------

HARNESS_COMMON = r'''
#include <cstdint>
#include <cstdio>
#include <cstdlib>
#include <cstring>
#include <csetjmp>
#include <csignal>
#include <unistd.h>
#include <limits>
#include <string>
#include <type_traits>
#include "au/quantity.hh"
#include "au/quantity_point.hh"
#include "au/unit_of_measure.hh"
#include "au/magnitude.hh"
#include "au/prefix.hh"
#include "au/units/kelvins.hh"
#include "au/units/celsius.hh"
#include "au/units/fahrenheit.hh"
typedef __int128 i128;
struct VBase : au::UnitImpl<au::Temperature> {};
#define VUNIT(N, D) decltype(VBase{} * (au::mag<N>() / au::mag<D>()))
#define PUNIT(NAME, SN, SD, OC, ON, OD) \
    struct NAME : VUNIT(SN, SD) { static constexpr auto origin() { return au::make_quantity<VUNIT(ON, OD)>(OC); } };
struct Entry { int id; int kind; int ok; i128 (*op)(int, i128, i128); void (*info)(char*, size_t);
               long double (*fop)(int, long double); };
static long double no_fop(int, long double) { return 0; }
// implicit-rep conversion p.in(u) / p.as(u)
template <class R, class U1, class U2, bool Ok> struct MInst {
    static i128 op(int, i128, i128) { return 0; }
    static void info(char* b, size_t n) { snprintf(b, n, "-"); }
};
template <class R, class U1, class U2> struct MInst<R, U1, U2, true> {
    static i128 op(int w, i128 a, i128) {
        const auto p = au::make_quantity_point<U1>(static_cast<R>(a));
        switch (w) {
            case 30: return static_cast<i128>(p.in(U2{}));
            case 31: return static_cast<i128>(p.as(U2{}).in(U2{}));
            case 32: return static_cast<i128>(p.as(au::QuantityPointMaker<U2>{}).in(au::QuantityPointMaker<U2>{}));
        }
        return -99;
    }
    static void info(char* b, size_t n) {
        using T = decltype(au::make_quantity_point<U1>(R{}).in(U2{}));
        snprintf(b, n, "ret_is_r=%d", int(std::is_same<T, R>::value));
    }
};
// point +/- quantity (U1: the point's unit, U2: the quantity's unit)
template <class R1, class R2, class U1, class U2, bool Ok> struct QInst {
    static i128 op(int, i128, i128) { return 0; }
    static void info(char* b, size_t n) { snprintf(b, n, "-"); }
};
template <class R1, class R2, class U1, class U2> struct QInst<R1, R2, U1, U2, true> {
    using Sum = decltype(au::make_quantity_point<U1>(R1{}) + au::make_quantity<U2>(R2{}));
    using RU = typename Sum::Unit;
    static i128 op(int w, i128 a, i128 b) {
        const auto p = au::make_quantity_point<U1>(static_cast<R1>(a));
        const auto q = au::make_quantity<U2>(static_cast<R2>(b));
        switch (w) {
            case 40: return static_cast<i128>((p + q).in(RU{}));
            case 41: return static_cast<i128>((q + p).in(RU{}));
            case 42: return static_cast<i128>((p - q).in(RU{}));
        }
        return -99;
    }
    static void info(char* b, size_t n) {
        using S2 = decltype(au::make_quantity<U2>(R2{}) + au::make_quantity_point<U1>(R1{}));
        using D = decltype(au::make_quantity_point<U1>(R1{}) - au::make_quantity<U2>(R2{}));
        using T = typename Sum::Rep;
        snprintf(b, n, "k1=%llu k2=%llu same_origin=%d same_types=%d rep=%d,%d",
                 (unsigned long long)au::get_value<uint64_t>(au::unit_ratio(U1{}, RU{})),
                 (unsigned long long)au::get_value<uint64_t>(au::unit_ratio(U2{}, RU{})),
                 int(au::origin_displacement(U1{}, RU{}) == au::ZERO),
                 int(std::is_same<S2, Sum>::value && std::is_same<D, Sum>::value), int(sizeof(T) * 8), int(std::numeric_limits<T>::is_signed));
    }
};
// explicit-rep conversion with a floating-point rep on either side
template <class R, class N, class U1, class U2> struct FInst {
    static i128 op(int, i128, i128) { return 0; }
    static long double fop(int w, long double a) {
        const auto p = au::make_quantity_point<U1>(static_cast<R>(a));
        switch (w) {
            case 50: return static_cast<long double>(p.template coerce_in<N>(U2{}));
            case 51: return static_cast<long double>(p.template as<N>(U2{}).in(U2{}));
        }
        return -99;
    }
    static void info(char* b, size_t n) { snprintf(b, n, "float"); }
};
template <class R, class N, class U1, class U2, bool Ok> struct EInst {
    static i128 op(int, i128, i128) { return 0; }
    static void info(char* b, size_t n) { snprintf(b, n, "-"); }
};
template <class R, class N, class U1, class U2> struct EInst<R, N, U1, U2, true> {
    static i128 op(int w, i128 a, i128) {
        const auto p = au::make_quantity_point<U1>(static_cast<R>(a));
        switch (w) {
            case 0: return static_cast<i128>(p.template coerce_in<N>(U2{}));
            case 1: return static_cast<i128>(p.template coerce_as<N>(U2{}).in(U2{}));
            case 2: return static_cast<i128>(p.template in<N>(U2{}));
            case 3: return static_cast<i128>(p.template as<N>(U2{}).in(U2{}));
            case 4: return static_cast<i128>(p.template coerce_in<N>(au::QuantityPointMaker<U2>{}));
        }
        return -99;
    }
    static void info(char* b, size_t n) {
        using T = decltype(au::make_quantity_point<U1>(R{}).template coerce_in<N>(U2{}));
        snprintf(b, n, "ret_is_n=%d", int(std::is_same<T, N>::value));
    }
};
template <class R1, class R2, class U1, class U2, bool Ok3> struct OCmp3 {
    template <class P1, class P2> static i128 go(const P1&, const P2&) { return -98; }
};
#if __cplusplus >= 202002L
template <class R1, class R2, class U1, class U2> struct OCmp3<R1, R2, U1, U2, true> {
    template <class P1, class P2> static i128 go(const P1& p1, const P2& p2) { const auto s = (p1 <=> p2); return s < 0 ? 0 : (s == 0 ? 1 : 2); }
};
#endif
template <class R1, class R2, class U1, class U2, bool Ok, bool Ok3> struct OInst {
    static i128 op(int, i128, i128) { return 0; }
    static void info(char* b, size_t n) { snprintf(b, n, "-"); }
};
template <class R1, class R2, class U1, class U2, bool Ok3> struct OInst<R1, R2, U1, U2, true, Ok3> {
    using CP = au::CommonPointUnitT<U1, U2>;
    static i128 op(int w, i128 a, i128 b) {
        const auto p1 = au::make_quantity_point<U1>(static_cast<R1>(a));
        const auto p2 = au::make_quantity_point<U2>(static_cast<R2>(b));
        switch (w) {
            case 10: return p1 == p2;
            case 11: return p1 != p2;
            case 12: return p1 < p2;
            case 13: return p1 <= p2;
            case 14: return p1 > p2;
            case 15: return p1 >= p2;
            case 16: return static_cast<i128>((p1 - p2).in(CP{}));
            case 17: return p2 > p1;
            case 18: return p2 == p1;
            case 20: return static_cast<i128>((p2 - p1).in(CP{}));
            case 21: return p2 < p1;
            case 22: return p2 != p1;
            case 19: return OCmp3<R1, R2, U1, U2, Ok3>::go(p1, p2);
        }
        return -99;
    }
    static void info(char* b, size_t n) {
        using D = decltype((au::make_quantity_point<U1>(R1{}) - au::make_quantity_point<U2>(R2{})).in(CP{}));
        snprintf(b, n, "k1=%llu k2=%llu first=%d diffrep=%d,%d",
                 (unsigned long long)au::get_value<uint64_t>(au::unit_ratio(U1{}, CP{})),
                 (unsigned long long)au::get_value<uint64_t>(au::unit_ratio(U2{}, CP{})),
                 int(au::origin_displacement(CP{}, U1{}) == au::ZERO), int(sizeof(D) * 8), int(std::numeric_limits<D>::is_signed));
    }
};
#define EENTRY(ID, R, N, U1, U2, OK) { ID, 0, OK, &EInst<R, N, U1, U2, OK>::op, &EInst<R, N, U1, U2, OK>::info, &no_fop }
#define OENTRY(ID, R1, R2, U1, U2, OK, OK3) { ID, 1, OK, &OInst<R1, R2, U1, U2, OK, OK3>::op, &OInst<R1, R2, U1, U2, OK, OK3>::info, &no_fop }
#define MENTRY(ID, R, U1, U2, OK) { ID, 2, OK, &MInst<R, U1, U2, OK>::op, &MInst<R, U1, U2, OK>::info, &no_fop }
#define QENTRY(ID, R1, R2, U1, U2, OK) { ID, 3, OK, &QInst<R1, R2, U1, U2, OK>::op, &QInst<R1, R2, U1, U2, OK>::info, &no_fop }
#define FENTRY(ID, R, N, U1, U2) { ID, 4, 1, &FInst<R, N, U1, U2>::op, &FInst<R, N, U1, U2>::info, &FInst<R, N, U1, U2>::fop }
'''

HARNESS_MAIN = r'''
extern const Entry* const chunks[]; extern const int chunk_sizes[]; extern const int n_chunks;
static volatile long g_ub = 0;
extern "C" void __ubsan_on_report(void) { g_ub = g_ub + 1; }
static std::string s128(i128 v) {
    if (v == 0) return "0";
    bool neg = v < 0; unsigned __int128 u = neg ? (unsigned __int128)(-(v + 1)) + 1u : (unsigned __int128)v;
    std::string s; while (u) { s.insert(s.begin(), char('0' + int(u % 10))); u /= 10; }
    return neg ? "-" + s : s;
}
static i128 p128(const char* s) {
    bool neg = false; if (*s == '-') { neg = true; ++s; }
    unsigned __int128 u = 0; while (*s >= '0' && *s <= '9') { u = u * 10 + unsigned(*s - '0'); ++s; }
    return neg ? -(i128)u : (i128)u;
}
static const Entry* find(int id) {
    for (int c = 0; c < n_chunks; ++c) for (int i = 0; i < chunk_sizes[c]; ++i) if (chunks[c][i].id == id) return &chunks[c][i];
    return nullptr;
}
static sigjmp_buf g_jmp; static volatile sig_atomic_t g_armed = 0;
static void on_fpe(int) { if (g_armed) siglongjmp(g_jmp, 1); _exit(3); }
static bool call_op(const Entry* e, int w, i128 a, i128 b, i128* out) {
    if (sigsetjmp(g_jmp, 1)) { g_armed = 0; return false; }
    g_armed = 1; *out = e->op(w, a, b); g_armed = 0; return true;
}
static bool mulfits(i128 v, i128 k, i128 lo, i128 hi) {   // lo <= v*k <= hi, k != 0, no i128 overflow
    if (k < 0) { v = -v; k = -k; }
    return v >= 0 ? v <= hi / k : v >= lo / k;
}
int main() {
    static char line[2048];
    signal(SIGFPE, on_fpe);
    while (fgets(line, sizeof line, stdin)) {
        char cmd = line[0];
        if (cmd == 'I') {
            int id; if (sscanf(line + 1, "%d", &id) != 1) { puts("bad"); continue; }
            const Entry* e = find(id); if (!e) { puts("bad"); continue; }
            char b[400]; e->info(b, sizeof b);
            printf("I %d %s std=%ld\n", id, b, (long)__cplusplus);
        } else if (cmd == 'P') {
            int id, w; char a[2][64];
            if (sscanf(line + 1, "%d %d %63s %63s", &id, &w, a[0], a[1]) != 4) { puts("bad"); continue; }
            const Entry* e = find(id); if (!e) { puts("bad"); continue; }
            long ub0 = g_ub; i128 r = 0;
            const bool okc = call_op(e, w, p128(a[0]), p128(a[1]), &r);
            printf("P %d %d val=%s ub=%ld\n", id, w, okc ? s128(r).c_str() : "trap", g_ub - ub0);
        } else if (cmd == 'F') {
            int id, w; long double x;
            if (sscanf(line + 1, "%d %d %La", &id, &w, &x) != 3) { puts("bad"); continue; }
            const Entry* e = find(id); if (!e) { puts("bad"); continue; }
            long ub0 = g_ub;
            const long double r = e->fop(w, x);
            printf("F %d %d val=%La ub=%ld\n", id, w, r, g_ub - ub0);
        } else if (cmd == 'S') {
            // S id lo hi kA B0 dv N D  calc(lo hi) P(lo hi) c2(lo hi) pc2(lo hi) n(lo hi): exhaustive explicit conversions
            int id; char a[18][64];
            if (sscanf(line + 1, "%d %63s %63s %63s %63s %63s %63s %63s %63s %63s %63s %63s %63s %63s %63s %63s %63s %63s %63s", &id,
                       a[0], a[1], a[2], a[3], a[4], a[5], a[6], a[7], a[8], a[9], a[10], a[11], a[12], a[13], a[14], a[15], a[16], a[17]) != 19) { puts("bad"); continue; }
            const Entry* e = find(id); if (!e) { puts("bad"); continue; }
            i128 x[18]; for (int i = 0; i < 18; ++i) x[i] = p128(a[i]);
            const i128 lo = x[0], hi = x[1], kA = x[2], B0 = x[3], dv = x[4], N = x[5], D = x[6];
            const i128 clo = x[8], chi = x[9], plo = x[10], phi = x[11], c2lo = x[12], c2hi = x[13], qlo = x[14], qhi = x[15], nlo = x[16], nhi = x[17];
            (void)x[7];
            long n = 0, scope = 0, bad = 0, ub = 0; std::string first = "-", firstub = "-";
            for (i128 v = lo; v <= hi; ++v) {
                ++n;
                if (!(clo <= v && v <= chi && clo <= dv && dv <= chi && clo <= B0 && B0 <= chi)) continue;
                if (!mulfits(v, kA, clo, chi)) continue;
                const i128 Y = v * kA - B0;
                if (!(plo <= Y && Y <= phi && c2lo <= Y && Y <= c2hi)) continue;
                if (!mulfits(Y, N, qlo, qhi)) continue;
                const i128 q = (Y * N) / D;
                if (!(c2lo <= q && q <= c2hi && nlo <= q && q <= nhi)) continue;
                ++scope;
                long ub0 = g_ub; i128 r = 0;
                const bool okc = call_op(e, 0, v, 0, &r);
                if (g_ub != ub0) { if (!ub++) firstub = s128(v); }
                if (!okc || r != q) { if (!bad++) first = s128(v) + "," + (okc ? s128(r) : std::string("trap")) + "," + s128(q); }
            }
            printf("S %d n=%ld scope=%ld bad=%ld first=%s ub=%ld firstub=%s\n", id, n, scope, bad, first.c_str(), ub, firstub.c_str());
        } else { puts("bad"); }
        fflush(stdout);
    }
    return 0;
}
'''


def uname(u, names):
    if u.get("cpp"):
        names[ukey(u) + " " + u["cpp"]] = u["cpp"]
        return u["cpp"]           # a unit of the library itself
    # the name is a function of the content: the same struct name must mean the same unit in every TU (ODR)
    k = ukey(u)
    if k not in names:
        names[k] = "PU_" + k.replace(" ", "_").replace("-", "m")
    return names[k]


def write_table(path, name, ch, gates):
    names = {}
    with open(path, "w") as f:
        f.write(HARNESS_COMMON)
        body = []
        for ins in ch:
            n1, n2 = uname(ins["u1"], names), uname(ins["u2"], names)
            ok = "true" if gates[ins["id"]] else "false"
            if ins["kind"] == "E":
                body.append(f"  EENTRY({ins['id']}, {CTYPE[ins['r1']]}, {CTYPE[ins['r2']]}, {n1}, {n2}, {ok}),\n")
            elif ins["kind"] == "M":
                body.append(f"  MENTRY({ins['id']}, {CTYPE[ins['r1']]}, {n1}, {n2}, {ok}),\n")
            elif ins["kind"] == "Q":
                body.append(f"  QENTRY({ins['id']}, {CTYPE[ins['r1']]}, {CTYPE[ins['r2']]}, {n1}, {n2}, {ok}),\n")
            elif ins["kind"] == "F":
                body.append(f"  FENTRY({ins['id']}, {FCT[ins['r1']]}, {FCT[ins['r2']]}, {n1}, {n2}),\n")
            else:
                ok3 = "true" if gates.get(("cmp3", ins["id"])) else "false"
                body.append(f"  OENTRY({ins['id']}, {CTYPE[ins['r1']]}, {CTYPE[ins['r2']]}, {n1}, {n2}, {ok}, {ok3}),\n")
        for k, nm in names.items():
            if nm.startswith("au::"):
                continue
            sn, sd, oc, on, od = k.split()
            f.write(f"PUNIT({nm}, {sn}ull, {sd}ull, {oc}, {on}ull, {od}ull)\n")
        f.write(f"extern const Entry {name}[] = {{\n" + "".join(body) + "};\n")


def write_harness(wd, insts, gates, nchunks=16):
    chunks = [insts[i::nchunks] for i in range(nchunks)]
    chunks = [c for c in chunks if c]
    tables = []
    for ci, ch in enumerate(chunks):
        p = os.path.join(wd, f"chunk{ci}.cc")
        write_table(p, f"table{ci}", ch, gates)
        tables.append((p, f"table{ci}", ch))
    return {"tables": tables, "gates": gates}


def write_main(wd, live, tag=""):
    p = os.path.join(wd, f"main{tag}.cc")
    with open(p, "w") as f:
        f.write(HARNESS_COMMON)
        for (_, name, ch) in live:
            f.write(f"extern const Entry {name}[];\n")
        f.write("const Entry* const chunks[] = {" + ", ".join(name for (_, name, _) in live) + "};\n")
        f.write("const int chunk_sizes[] = {" + ", ".join(str(len(ch)) for (_, _, ch) in live) + "};\n")
        f.write(f"const int n_chunks = {len(live)};\n")
        f.write(HARNESS_MAIN)
    return p


def build_harness(wd, files, compiler, std, tag, san=True):
    def comp(t):
        src = t[0]
        obj = src[:-3] + f".{tag}.o"
        rc, out = cxx(src, obj, compiler=compiler, std=std, extra=["-c"], san=san)
        return (t, obj, rc, out)
    res = pmap(comp, files["tables"])
    live, objs, failures, dead, retry = [], [], [], [], []
    for t, obj, rc, out in res:
        if rc == 0:
            live.append(t)
            objs.append(obj)
        else:
            for ins in t[2]:
                p = os.path.join(wd, f"inst{ins['id']}_{tag}.cc")
                write_table(p, f"tableI{ins['id']}", [ins], files["gates"])
                retry.append((p, f"tableI{ins['id']}", [ins]))
    for t, obj, rc, out in pmap(comp, retry):
        if rc == 0:
            live.append(t)
            objs.append(obj)
        else:
            dead.append(t[2][0]["id"])
            failures.append({"src": t[0], "instance": t[2][0], "output": out[-3000:]})
    if not live:
        return None, failures or [{"src": "all", "output": "no table compiles"}], dead
    mainp = write_main(wd, live, tag)
    t, obj, rc, out = comp((mainp, "main", []))
    if rc != 0:
        return None, [{"src": mainp, "output": out[-4000:]}], dead
    objs.append(obj)
    exe = os.path.join(wd, f"harness_{tag}")
    from vlib import link_cmd
    rc, out, err = run(link_cmd(compiler, objs, exe) if san else [compiler] + objs + ["-o", exe])
    if rc != 0:
        return None, [{"src": "link", "output": (out + err)[-4000:]}], dead
    return exe, failures, dead


# ------------------------------------------------------------------------------------------------
# Forbidden operations (negative compile probes) and positive controls
# ------------------------------------------------------------------------------------------------

FORBIDDEN = [
    ("point+point", "auto r = p1 + p2; (void)r;"),
    ("scalar*point", "auto r = 2 * p1; (void)r;"),
    ("point*scalar", "auto r = p1 * 2; (void)r;"),
    ("point*point", "auto r = p1 * p2; (void)r;"),
    ("point/scalar", "auto r = p1 / 2; (void)r;"),
    ("point-from-ZERO", "au::QuantityPoint<PU0, int> z = au::ZERO; (void)z;"),
    ("point==ZERO", "bool b = (p1 == au::ZERO); (void)b;"),
    ("point-to-quantity", "au::Quantity<PU0, int> q = p1; (void)q;"),
    ("quantity-to-point", "au::QuantityPoint<PU0, int> z = au::make_quantity<PU0>(1); (void)z;"),
    ("quantity-minus-point", "auto r = au::make_quantity<PU0>(1) - p1; (void)r;"),
    ("point-in-quantity-slot", "auto r = au::make_quantity<PU0>(1).in(p1); (void)r;"),
    ("unary-minus-point", "auto r = -p1; (void)r;"),
    ("point+=point", "auto q = p1; q += p2; (void)q;"),
    ("implicit-C-to-K-int", "au::QuantityPoint<PU1, int> z = p1; (void)z;"),
    ("point+scalar", "auto r = p1 + 1; (void)r;"),
    ("scalar+point", "auto r = 1 + p1; (void)r;"),
    ("point*quantity", "auto r = p1 * au::make_quantity<PU0>(1); (void)r;"),
    ("quantity*point", "auto r = au::make_quantity<PU0>(1) * p1; (void)r;"),
    ("point/point", "auto r = p1 / p2; (void)r;"),
    ("make-point-from-quantity", "auto r = au::make_quantity_point<PU0>(au::make_quantity<PU0>(1)); (void)r;"),
    ("make-point-from-point", "auto r = au::make_quantity_point<PU0>(p1); (void)r;"),
    ("quantity-in-point-slot-compare", "bool b = (p1 < au::make_quantity<PU0>(1)); (void)b;"),
    ("point-assign-ZERO", "auto q = p1; q = au::ZERO; (void)q;"),
]
ALLOWED = [
    ("point-point", "auto r = p1 - p2; (void)r;"),
    ("point+quantity", "auto r = p1 + au::make_quantity<PU0>(1); (void)r;"),
    ("quantity+point", "auto r = au::make_quantity<PU0>(1) + p1; (void)r;"),
    ("point-quantity", "auto r = p1 - au::make_quantity<PU0>(1); (void)r;"),
    ("point<point", "bool b = p1 < p2; (void)b;"),
    ("explicit-C-to-K-int", "auto z = p1.coerce_as(PU1{}); (void)z;"),
]


def probe_src(stmt):
    return (HARNESS_COMMON + "PUNIT(PU0, 1ull, 1ull, 273150, 1ull, 1000ull)\nPUNIT(PU1, 1ull, 1ull, 0, 1ull, 1000ull)\n"
            "int main() {\n  const auto p1 = au::make_quantity_point<PU0>(20);\n  const auto p2 = au::make_quantity_point<PU1>(300);\n"
            "  (void)p1; (void)p2;\n  " + stmt + "\n  return 0;\n}\n")


# ------------------------------------------------------------------------------------------------
# Exploration
# ------------------------------------------------------------------------------------------------

def base_rec(ins, cfg):
    rec = {"kind_inst": ins["kind"], "r1": ins["r1"], "r2": ins["r2"], "u1": ukey(ins["u1"]), "u2": ukey(ins["u2"]), "config": cfg}
    for side in ("1", "2"):
        if ins["u" + side].get("cpp"):
            rec["cpp" + side] = ins["u" + side]["cpp"]
    return rec


def m_values(rng, ins, count):
    r = ins["r1"]
    lo, hi = ty_lo(r), ty_hi(r)
    f = scale(ins["u1"]) / scale(ins["u2"])
    pts = {lo, lo + 1, -1, 0, 1, 2, hi - 1, hi}
    if f >= 1:
        k = int(f)
        off = int((origin(ins["u1"]) - origin(ins["u2"])) / scale(ins["u2"])) if scale(ins["u2"]) else 0
        for lim in (lo, hi):
            for dl in (-1, 0, 1):
                pts.add((lim - off) // k + dl)
                pts.add(lim // k + dl)
    for _ in range(count):
        b = rng.randrange(1, INT_TYPES[r][1])
        pts.add(rng.randrange(-(1 << b), (1 << b) + 1))
    return sorted(p for p in pts if lo <= p <= hi)


def q_values(rng, ins, count):
    r1, r2 = ins["r1"], ins["r2"]
    pts = set()
    for a in (ty_lo(r1), -1, 0, 1, ty_hi(r1)):
        for b in (ty_lo(r2), -1, 0, 1, ty_hi(r2)):
            pts.add((clip(r1, a), clip(r2, b)))
    for _ in range(count):
        b1, b2 = rng.randrange(1, min(INT_TYPES[r1][1], 28)), rng.randrange(1, min(INT_TYPES[r2][1], 28))
        v1 = rng.randrange(-(1 << b1), (1 << b1) + 1)
        v2 = rng.randrange(-(1 << b2), (1 << b2) + 1)
        pts.add((clip(r1, v1), clip(r2, v2)))
    return sorted(pts)


def f_values(rng, ins, count):
    import struct
    r = ins["r1"]
    if r in INT_TYPES:
        pts = [0, 1, -1, 20, -40, 100, 273, 1 << 20, -(1 << 20)] + [rng.randrange(-(1 << 24), 1 << 24) for _ in range(count)]
        return [clip(r, p) for p in pts]
    pts = [0.0, -0.0, 1.0, -40.0, 20.0, 100.0, 273.15, 1e-30, -1e-30, 1e30, float("inf"), float("-inf"), float("nan"), 2.0 ** -149 if r == "f32" else 5e-324]
    for _ in range(count):
        z = rng.random()
        pts.append(float(rng.randrange(-3000, 3001)) if z < 0.4 else (rng.uniform(-3000, 3000) if z < 0.8 else rng.uniform(-1, 1) * 10.0 ** rng.randrange(-8, 12)))
    if r == "f32":
        pts = [struct.unpack("f", struct.pack("f", p))[0] for p in pts]
    return pts


def check_implicit(ins, w, v, r, a, model_line, base, violations, stats, distinct):
    """p.in(u') / p.as(u') (implicit rep): exact affine value, no truncation, whenever every intermediate is representable."""
    tgt = {"scale": scale(ins["u2"]), "origin": origin(ins["u2"]), "unit": ins["u2"]}
    steps, x = implicit_steps(ins["r1"], ins["u1"], tgt, v)
    scope = steps_ok(steps)
    exact = (v * scale(ins["u1"]) + origin(ins["u1"]) - origin(ins["u2"])) / scale(ins["u2"])
    stats["points"] += 1
    if model_line is not None:
        mm = kv(model_line)
        if mm["val"] != "ub" and mm["val"] != r["val"] and (scope or mm["wrapped"] == "0"):
            violations.append({"what": f"model and implementation differ for the implicit conversion at {v}", "class": "corr-implicit", "no_input": True,
                               "broken": "correspondence: c09imp", "rec": dict(base, kind="corr", op=w, v1=v, v2=0, model=model_line, impl=a)})
        if scope and (mm["wrapped"] != "0" or mm["narrowed"] != "0" or mm["val"] == "ub"):
            violations.append({"what": "oracle scope disagrees with the model's flags (implicit conversion)", "class": "corr-scope-m", "no_input": True,
                               "broken": "correspondence: scope of the implicit conversion", "rec": dict(base, kind="corr", op=w, v1=v, v2=0, model=model_line)})
    if not scope:
        stats["skipped_out_of_scope"] += 1
        return
    stats["points_in_scope"] += 1
    stats["implicit_in_scope"] += 1
    distinct.add(("M", ins["id"]))
    if Fraction(x) != exact or exact.denominator != 1 or r["val"] == "trap" or int(r["val"]) != exact.numerator or r["ub"] != "0":
        violations.append({"what": f"implicit conversion (form {w}) of point {v} [{ukey(ins['u1'])}] {ins['r1']} to [{ukey(ins['u2'])}] returns {r['val']} "
                                   f"(sanitizer reports {r['ub']}), exact affine value {exact}", "class": f"oracle-implicit-{ins['r1']}",
                           "rec": dict(base, kind="oracle", op=w, v1=v, v2=0, got=r["val"], want=str(exact))})


def rep_from_bits(s):
    b, sg = s.split(",")
    return ("i" if sg == "1" else "u") + b


def check_shift(ins, w, v1, v2, r, info, base, violations, stats, distinct, model_line=None, impl_line=None):
    """point +/- quantity: the result is the point shifted by exactly the quantity, in the result's unit (whose scale and
    origin are judged from the I line).  Scope: the scaled operands and the result fit the common rep (conservative)."""
    stats["points"] += 1
    if info is None:
        return
    k1, k2 = int(info["k1"]), int(info["k2"])
    Rc = common_ty(ins["r1"], ins["r2"])
    Rres = rep_from_bits(info["rep"])
    a, b = v1 * k1, v2 * k2
    want = a + b if w in (40, 41) else a - b
    scope = (in_range(Rc, v1) and in_range(Rc, v2) and in_range(Rc, a) and in_range(Rc, b) and in_range(Rc, want) and in_range(Rres, want))
    if model_line is not None:
        mm = kv(model_line)
        g = rat_gcd(scale(ins["u1"]), scale(ins["u2"]))
        if mm.get("scale") != f"{g.numerator}/{g.denominator}" or mm.get("rep") != Rres:
            violations.append({"what": f"model and library disagree on the unit/rep of point +/- quantity: model {mm.get('scale')} {mm.get('rep')}, "
                                       f"library scale {g} rep {Rres}", "class": "corr-shift-unit", "no_input": True,
                               "broken": "correspondence: Point.shiftResultUnit", "rec": dict(base, kind="corr", op=w, model=model_line)})
        if mm["val"] != "ub" and mm["val"] != r["val"] and (scope or mm["wrapped"] == "0"):
            violations.append({"what": f"model and implementation differ for point +/- quantity (op {w}) at ({v1}, {v2})", "class": "corr-shift", "no_input": True,
                               "broken": "correspondence: c09shift", "rec": dict(base, kind="corr", op=w, v1=v1, v2=v2, model=model_line, impl=impl_line)})
        if scope and (mm["wrapped"] != "0" or mm["narrowed"] != "0" or mm["val"] == "ub"):
            violations.append({"what": "oracle scope disagrees with the model's flags (point +/- quantity)", "class": "corr-scope-q", "no_input": True,
                               "broken": "correspondence: scope of C09_point_plus_quantity", "rec": dict(base, kind="corr", op=w, v1=v1, v2=v2, model=model_line)})
    if not scope:
        stats["skipped_out_of_scope"] += 1
        return
    # independent statement: position(result) = position(p) +/- value(q)
    ru = scale(ins["u1"]) / k1
    pos = v1 * scale(ins["u1"]) + origin(ins["u1"])
    exact = (pos + (v2 * scale(ins["u2"]) if w in (40, 41) else -v2 * scale(ins["u2"])) - origin(ins["u1"])) / ru
    stats["points_in_scope"] += 1
    stats["shift_in_scope"] += 1
    distinct.add(("Q", ins["id"]))
    if exact != want or r["val"] == "trap" or int(r["val"]) != want or r["ub"] != "0":
        opn = {40: "p + q", 41: "q + p", 42: "p - q"}[w]
        violations.append({"what": f"{opn} with p = {v1} [{ukey(ins['u1'])}] {ins['r1']}, q = {v2} [scale {ins['u2']['sn']}/{ins['u2']['sd']}] {ins['r2']} returns "
                                   f"{r['val']} (sanitizer reports {r['ub']}) in the result unit, exact shifted position gives {exact}",
                           "class": f"oracle-shift-{w}-{ins['r1']}-{ins['r2']}", "rec": dict(base, kind="oracle", op=w, v1=v1, v2=v2, got=r["val"], want=str(exact))})


def check_point_float(ins, w, v, r, base, violations, stats, distinct):
    """Explicit conversion with a floating rep: within a few units of roundoff of the terms of the affine map."""
    from mixedops import hex_to_fraction
    import math as _m
    stats["float_evals"] += 1
    got = hex_to_fraction(r["val"])
    rec = dict(base, kind="oracle", op=w, v1=float(v).hex() if isinstance(v, float) else v, v2=0, got=r["val"], flt=True)
    fl = [x for x in (ins["r1"], ins["r2"]) if x in FPREC]
    if isinstance(v, float) and (_m.isnan(v) or _m.isinf(v)):
        want = "nan" if _m.isnan(v) else ("inf" if v > 0 else "-inf")
        if ins["r2"] in FPREC and got != want:
            violations.append({"what": f"floating conversion of a non-finite point {v!r}: answered {r['val']}, expected {want}",
                               "class": "oracle-float-special", "rec": dict(rec, want=want)})
        return
    if ins["r2"] not in FPREC:
        return
    s1, s2 = scale(ins["u1"]), scale(ins["u2"])
    d = origin(ins["u1"]) - origin(ins["u2"])
    exact = (Fraction(v) * s1 + d) / s2
    u = Fraction(1, 1 << min(FPREC[x] for x in fl))
    tol = 8 * u * (abs(Fraction(v)) * s1 + abs(d)) / s2 + Fraction(1, 1 << (149 if ins["r2"] == "f32" else 1074))   # + underflow
    if isinstance(got, str):
        violations.append({"what": f"floating conversion: non-finite answer {r['val']} for the finite point {v!r}", "class": "oracle-float-convert", "rec": rec})
        return
    err = abs(got - exact)
    if tol > 0:
        stats["float_max_err_u"] = max(stats["float_max_err_u"], float(err / (tol / 8)))
    distinct.add(("F", ins["id"]))
    if err > tol or r["ub"] != "0":
        violations.append({"what": f"floating conversion {ins['r1']}->{ins['r2']} of point {v!r} [{ukey(ins['u1'])}] to [{ukey(ins['u2'])}] returns {float(got)!r}, exact affine "
                                   f"value {float(exact)!r}: off by more than 8 units of roundoff of the terms", "class": "oracle-float-convert", "rec": dict(rec, want=float(exact))})


def e_values(rng, ins, plan, count):
    r = ins["r1"]
    lo, hi = ty_lo(r), ty_hi(r)
    pts = {lo, lo + 1, -1, 0, 1, hi - 1, hi}
    if plan:
        kA, B0, N, D = plan["kA"], plan["B0"], plan["N"], plan["D"]
        for t in (plan["calc"], plan["P"], plan["c2"], plan["pc2"], plan["n"]):
            for lim in (ty_lo(t), ty_hi(t)):
                for base in (lim // kA, (lim + B0) // kA, (lim // max(N, 1) + B0) // kA, (lim * D // max(N, 1) + B0) // kA):
                    for dl in (-1, 0, 1):
                        pts.add(base + dl)
        z = B0 // kA        # value at the target origin
        for dl in range(-3, 4):
            pts.add(z + dl)
        # both sides of the target origin with SMALL true results (they fit even an 8-bit destination): one result step is
        # about D / (N * kA) source steps
        step = max(1, -(-D // max(1, N * kA)))
        for j in (1, 2, 3, 10, 50, 100, 120):
            pts.add(z + j * step)
            pts.add(z - j * step)
            pts.add(z + j * step + 1)
            pts.add(z - j * step - 1)
    pts |= {2, 5, 15, 100, 1000, -5, -15, -100}
    for _ in range(count):
        zz = rng.random()
        if zz < 0.5:
            b = rng.randrange(1, INT_TYPES[r][1])
            pts.add(rng.randrange(-(1 << b), (1 << b) + 1))
        else:
            pts.add(rng.randrange(lo, hi + 1))
    return sorted(p for p in pts if lo <= p <= hi)


def o_values(rng, ins, count):
    r1, r2 = ins["r1"], ins["r2"]
    u1, u2 = ins["u1"], ins["u2"]
    pts = set()
    for _ in range(count):
        b = rng.randrange(1, min(INT_TYPES[r1][1], 24))
        v1 = clip(r1, rng.randrange(-(1 << b), (1 << b) + 1) if ty_lo(r1) < 0 else rng.randrange(0, (1 << b) + 1))
        if rng.random() < 0.6:
            # near-tie in absolute position
            y = (v1 * scale(u1) + origin(u1) - origin(u2)) / scale(u2)
            v2 = clip(r2, trunc_frac(y) + rng.choice([0, 0, 1, -1]))
        else:
            b2 = rng.randrange(1, min(INT_TYPES[r2][1], 24))
            v2 = clip(r2, rng.randrange(-(1 << b2), (1 << b2) + 1) if ty_lo(r2) < 0 else rng.randrange(0, (1 << b2) + 1))
        pts.add((v1, v2))
    return sorted(pts)


def explore(prop, tier, seed, rng, wd):
    t0 = time.time()
    drv = RetryDriver()
    insts = gen_instances(rng, tier)
    violations = []
    # model gates
    greq = []
    for i in insts:
        if i["kind"] == "E":
            greq.append(f"c09in {i['r1']} {i['r2']} {ukey(i['u1'])} {ukey(i['u2'])} 0")
        elif i["kind"] == "M":
            greq.append(f"c09imp {i['r1']} {ukey(i['u1'])} {ukey(i['u2'])} 0")
        elif i["kind"] in ("Q", "F"):
            greq.append("c09cpu 1 1 0 1 2 1 1 0 1 2")        # placeholder: no model gate for these kinds
        else:
            greq.append(f"c09op eq {i['r1']} {i['r2']} {ukey(i['u1'])} {ukey(i['u2'])} 0 0")
    gans = [kv(a) for a in drv.ask(greq)]
    gates = {i["id"]: a.get("compiles") == "1" for i, a in zip(insts, gans)}
    for i in insts:
        if i["kind"] == "F":
            gates[i["id"]] = True
    # point +/- quantity is not modelled: the compile gate is the compiler's verdict (one -fsyntax-only probe per instance)
    qi = [i for i in insts if i["kind"] == "Q"]

    def qprobe(ins):
        pth = os.path.join(wd, f"qprobe{ins['id']}.cc")
        write_table(pth, "tq", [ins], {ins["id"]: True})
        rc, out = cxx(pth, None, san=False, syntax_only=True)
        return rc == 0
    for i, okq in zip(qi, pmap(qprobe, qi)):
        gates[i["id"]] = okq
    oi = [i for i in insts if i["kind"] == "O"]
    g3 = drv.ask([f"c09op cmp3 {i['r1']} {i['r2']} {ukey(i['u1'])} {ukey(i['u2'])} 0 0" for i in oi])
    for i, a in zip(oi, g3):
        gates[("cmp3", i["id"])] = gates[i["id"]] and kv(a).get("compiles") == "1"
    files = write_harness(wd, insts, gates)
    # "exact" = clang++-14 with the exact-count UBSan handlers (vlib.SAN_EXACT): the full runtimes report a source
    # location once per process, so per-input `ub` counts are only reliable in this build
    # quick: g++ C++14 with ASan/UBSan, the exact-count build under C++20 (so that <=> is judged in EVERY run), and one further
    # compiler x standard combination without sanitizers and without the exhaustive sweeps (points only), rotating with the seed
    third = [("g++", "c++20", "pg20"), ("clang++-14", "c++17", "pc17"), ("g++", "c++17", "pg17"), ("clang++-14", "c++14", "pc14")][seed % 4]
    configs = [("g++", "c++14", "g14"), ("exact", "c++20", "x20"), third]
    if tier == "thorough":
        configs = [("g++", "c++14", "g14"), ("g++", "c++20", "g20"), ("clang++-14", "c++14", "c14"), ("clang++-14", "c++17", "c17"),
                   ("clang++-14", "c++20", "c20"), ("exact", "c++14", "x14")]
    by_id = {i["id"]: i for i in insts}
    stats = {"instances": len(insts), "E_instances": sum(1 for i in insts if i["kind"] == "E"),
             "O_instances": sum(1 for i in insts if i["kind"] == "O"), "gate_ok": sum(1 for k, v in gates.items() if v and not isinstance(k, tuple)),
             "gate_rejected": sum(1 for k, v in gates.items() if not v and not isinstance(k, tuple)),
             "cmp3_gate_ok": sum(1 for k, v in gates.items() if v and isinstance(k, tuple)), "configs": [], "sweeps": 0, "sweep_values": 0,
             "sweep_in_scope": 0, "points": 0, "points_in_scope": 0, "skipped_out_of_scope": 0, "neg_probes": 0,
             "forbidden_probes": 0, "allowed_probes": 0, "dropped_instances": 0, "model_ub_cases": 0, "rep_pairs": {}}
    for i in insts:
        k = i["kind"] + ":" + i["r1"] + ">" + i["r2"]
        stats["rep_pairs"][k] = stats["rep_pairs"].get(k, 0) + 1
    plans = {i["id"]: explicit_plan(i["r1"], i["r2"], i["u1"], i["u2"]) for i in insts if i["kind"] == "E"}
    cpus = {i["id"]: common_point_unit(i["u1"], i["u2"]) for i in insts if i["kind"] == "O"}
    npts = 60 if tier == "quick" else 200
    evals = {i["id"]: e_values(rng, i, plans[i["id"]], npts) for i in insts if i["kind"] == "E" and gates[i["id"]]}
    ovals = {i["id"]: o_values(rng, i, npts) for i in insts if i["kind"] == "O" and gates[i["id"]]}
    mvals = {i["id"]: m_values(rng, i, npts // 2) for i in insts if i["kind"] == "M" and gates[i["id"]]}
    qvals = {i["id"]: q_values(rng, i, npts // 2) for i in insts if i["kind"] == "Q" and gates[i["id"]]}
    fvals = {i["id"]: f_values(rng, i, npts // 3) for i in insts if i["kind"] == "F"}
    stats.update({"M_instances": sum(1 for i in insts if i["kind"] == "M"), "Q_instances": len(qi), "Q_compiling": sum(1 for i in qi if gates[i["id"]]),
                  "F_instances": sum(1 for i in insts if i["kind"] == "F"), "implicit_in_scope": 0, "shift_in_scope": 0, "float_evals": 0,
                  "float_max_err_u": 0.0, "classes": {}})
    for i in insts:
        stats["classes"][i["kind"] + ":" + i.get("why", "")] = stats["classes"].get(i["kind"] + ":" + i.get("why", ""), 0) + 1
    qinfo = {}
    samples, distinct = [], set()
    half = 1 << 15
    from concurrent.futures import ThreadPoolExecutor
    pool = ThreadPoolExecutor(max_workers=len(configs))
    builds = {tag: pool.submit(build_harness, wd, files, compiler, std, tag, not tag.startswith("p")) for (compiler, std, tag) in configs}
    for (compiler, std, tag) in configs:
        cfg = f"{compiler} -std={std}"
        # the exhaustive +-2^15 sweeps run in one configuration per quick run (the exact-count build); all in thorough
        points_only = tag.startswith("p") or (tier == "quick" and compiler != "exact")
        exe, fails, dead = builds[tag].result()
        for fl in (fails or [])[:3]:
            violations.append({"what": f"harness does not compile under {cfg}: a conversion/operation the model's gate admits is rejected "
                                       f"by the headers" + (f" [{len(dead)} instance(s) dropped]" if dead else ""),
                               "class": "harness-build", "no_input": True, "broken": "correspondence: Au.Point.explicitCompiles / pointOpsCompile",
                               "rec": dict(base_rec(fl["instance"], cfg) if "instance" in fl else {"config": cfg}, kind="build"), "detail": fl})
        if exe is None:
            continue
        dead = set(dead)
        stats["dropped_instances"] += len(dead)
        stats["configs"].append(cfg)
        cpp20 = std == "c++20"
        lines, meta = [], []
        for i in insts:
            if i["id"] in dead or not gates[i["id"]]:
                continue
            lines.append(f"I {i['id']}")
            meta.append(("I", i["id"]))
            if i["kind"] == "E":
                plan = plans[i["id"]]
                if plan and not points_only:
                    r = i["r1"]
                    centres = [0, plan["B0"] // plan["kA"]]
                    for c in centres:
                        lo, hi = clip(r, c - half), clip(r, c + half)
                        t = [plan["calc"], plan["P"], plan["c2"], plan["pc2"], plan["n"]]
                        rng_s = " ".join(f"{ty_lo(x)} {ty_hi(x)}" for x in t)
                        lines.append(f"S {i['id']} {lo} {hi} {plan['kA']} {plan['B0']} {plan['dv']} {plan['N']} {plan['D']} 0 {rng_s}")
                        meta.append(("S", i["id"], lo, hi))
                for v in evals[i["id"]]:
                    for w in (0, 1, 2, 3, 4):
                        lines.append(f"P {i['id']} {w} {v} 0")
                        meta.append(("PE", i["id"], w, v))
            elif i["kind"] == "M":
                for v in mvals[i["id"]]:
                    for w in (30, 31, 32):
                        lines.append(f"P {i['id']} {w} {v} 0")
                        meta.append(("PM", i["id"], w, v))
            elif i["kind"] == "Q":
                for (v1, v2) in qvals[i["id"]]:
                    for w in (40, 41, 42):
                        lines.append(f"P {i['id']} {w} {v1} {v2}")
                        meta.append(("PQ", i["id"], w, v1, v2))
            elif i["kind"] == "F":
                for v in fvals[i["id"]]:
                    for w in (50, 51):
                        lines.append(f"F {i['id']} {w} {float(v).hex()}")
                        meta.append(("PF", i["id"], w, v))
            else:
                for (v1, v2) in ovals[i["id"]]:
                    for w in [x for x in range(10, 23) if x != 19 or (cpp20 and gates.get(("cmp3", i["id"])))]:
                        lines.append(f"P {i['id']} {w} {v1} {v2}")
                        meta.append(("PO", i["id"], w, v1, v2))
        answers, errs = run_harness(exe, lines)
        stats.setdefault("sanitizer_reports", 0)
        stats["sanitizer_reports"] += sum(e.count("runtime error") for e in errs)
        # model answers
        mreq, midx = [], {}
        for k, m in enumerate(meta):
            if m[0] == "PE" and m[2] == 0:
                i = by_id[m[1]]
                midx[k] = len(mreq)
                mreq.append(f"c09in {i['r1']} {i['r2']} {ukey(i['u1'])} {ukey(i['u2'])} {m[3]}")
            elif m[0] == "PO" and m[2] in (10, 11, 12, 13, 14, 15, 16, 19):
                i = by_id[m[1]]
                opn = {10: "eq", 11: "ne", 12: "lt", 13: "le", 14: "gt", 15: "ge", 16: "sub", 19: "cmp3"}[m[2]]
                midx[k] = len(mreq)
                mreq.append(f"c09op {opn} {i['r1']} {i['r2']} {ukey(i['u1'])} {ukey(i['u2'])} {m[3]} {m[4]}")
            elif m[0] == "PQ":
                i = by_id[m[1]]
                midx[k] = len(mreq)
                opn = {40: "pq", 41: "qp", 42: "pmq"}[m[2]]
                mreq.append(f"c09shift {opn} {i['r1']} {i['r2']} {ukey(i['u1'])} {i['u2']['sn']} {i['u2']['sd']} {m[3]} {m[4]}")
            elif m[0] == "PM" and m[2] == 30:
                i = by_id[m[1]]
                midx[k] = len(mreq)
                mreq.append(f"c09imp {i['r1']} {ukey(i['u1'])} {ukey(i['u2'])} {m[3]}")
            elif m[0] == "I" and by_id[m[1]]["kind"] == "O":
                i = by_id[m[1]]
                midx[k] = len(mreq)
                mreq.append(f"c09cpu {ukey(i['u1'])} {ukey(i['u2'])}")
        from mixedops import ask_parallel
        mans = ask_parallel(drv, mreq)
        ocache = {}
        for k, (m, a) in enumerate(zip(meta, answers)):
            ins = by_id[m[1]]
            base = base_rec(ins, cfg)
            r = kv(a)
            if m[0] == "I" and ins["kind"] in ("M", "F"):
                if ins["kind"] == "M" and r.get("ret_is_r") != "1":
                    violations.append({"what": "p.in(unit) does not return Rep", "class": "oracle-rettype", "rec": dict(base, kind="oracle", observable="rettype")})
            elif m[0] == "I" and ins["kind"] == "Q":
                qinfo[ins["id"]] = r
                sp, sq = scale(ins["u1"]), scale(ins["u2"])
                g = rat_gcd(sp, sq)
                want = (sp / g, sq / g, 1, 1)
                got = (Fraction(int(r["k1"])), Fraction(int(r["k2"])), int(r["same_origin"]), int(r["same_types"]))
                if got != want:
                    violations.append({"what": f"point +/- quantity: result unit has ratios/origin/types {got}, expected {want} (gcd scale, the point's origin, "
                                               f"one result type for p+q, q+p, p-q)", "class": "oracle-shift-unit",
                                       "rec": dict(base, kind="oracle", observable="shift-unit", got=str(got), want=str(want))})
            elif m[0] == "PM":
                check_implicit(ins, m[2], m[3], r, a, mans[midx[k]] if k in midx else None, base, violations, stats, distinct)
            elif m[0] == "PQ":
                check_shift(ins, m[2], m[3], m[4], r, qinfo.get(ins["id"]), base, violations, stats, distinct, mans[midx[k]] if k in midx else None, a)
            elif m[0] == "PF":
                check_point_float(ins, m[2], m[3], r, base, violations, stats, distinct)
            elif m[0] == "I":
                if ins["kind"] == "E":
                    if r.get("ret_is_n") != "1":
                        violations.append({"what": "coerce_in<N> does not return N", "class": "oracle-rettype", "rec": dict(base, kind="oracle", observable="rettype")})
                else:
                    cpu = cpus[ins["id"]]
                    want = (scale(ins["u1"]) / cpu["scale"], scale(ins["u2"]) / cpu["scale"], int(origin(ins["u1"]) == cpu["origin"]))
                    got = (Fraction(int(r["k1"])), Fraction(int(r["k2"])), int(r["first"]))
                    if got != want:
                        violations.append({"what": f"CommonPointUnitT: ratios/origin {got} differ from the exact (min origin, rational gcd) {want}",
                                           "class": "oracle-cpu", "rec": dict(base, kind="oracle", observable="common-point-unit", got=str(got), want=str(want))})
                    mm = kv(mans[midx[k]])
                    if (mm["k1"], mm["k2"]) != (r["k1"] + "/1", r["k2"] + "/1"):
                        violations.append({"what": "model and library disagree on the common point unit", "class": "corr-cpu", "no_input": True,
                                           "broken": "correspondence: Point.commonPointUnit", "rec": dict(base, kind="corr", impl=a, model=mans[midx[k]])})
                    want_rep = common_ty(ins["r1"], ins["r2"])      # Diff = Quantity<Unit, Rep>: NOT promoted
                    if r["diffrep"] != f"{INT_TYPES[want_rep][1]},{int(INT_TYPES[want_rep][2])}":
                        violations.append({"what": f"rep of point - point is {r['diffrep']}, expected {want_rep}", "class": "oracle-diffrep",
                                           "rec": dict(base, kind="oracle", observable="diffrep")})
            elif m[0] == "S":
                stats["sweeps"] += 1
                stats["sweep_values"] += int(r["n"])
                stats["sweep_in_scope"] += int(r["scope"])
                distinct.add(("E", ins["id"]))
                if len(samples) < 2:
                    samples.append({"request": lines[k], "harness": a})
                if int(r["bad"]):
                    f = r["first"].split(",")
                    violations.append({"what": f"explicit conversion {ins['r1']}->{ins['r2']} of point {f[0]} [{ukey(ins['u1'])}] to [{ukey(ins['u2'])}] returns {f[1]}, "
                                               f"exact truncated affine value {f[2]} ({r['bad']} such value(s))",
                                       "class": f"oracle-convert-{ins['r1']}-{ins['r2']}", "rec": dict(base, kind="oracle", op="in", v1=int(f[0]), v2=0, got=f[1], want=f[2])})
                if int(r["ub"]):
                    violations.append({"what": f"explicit conversion executes UB / unsigned wrap inside the statement's scope at {r['firstub']}",
                                       "class": f"ub-convert-{ins['r1']}-{ins['r2']}", "rec": dict(base, kind="oracle", op="in", observable="ub", v1=int(r["firstub"]), v2=0)})
            elif m[0] == "PE":
                v = m[3]
                scope, want = explicit_oracle(plans[ins["id"]], ins["r1"], v)
                stats["points"] += 1
                if m[2] == 0:
                    mm = kv(mans[midx[k]])
                    if mm["val"] == "ub":
                        stats["model_ub_cases"] += 1
                    elif mm["val"] != r["val"]:
                        violations.append({"what": f"model and implementation differ for the explicit conversion at {v}", "class": "corr-convert", "no_input": True,
                                           "broken": "correspondence: c09in", "rec": dict(base, kind="corr", op="in", v1=v, v2=0, model=mans[midx[k]], impl=a)})
                    if len(samples) < 8 and abs(v) > 2 and scope:
                        samples.append({"request": mreq[midx[k]], "model": mans[midx[k]], "harness": a, "oracle_want": want})
                    if scope and (mm["wrapped"] != "0" or mm["narrowed"] != "0" or mm["val"] == "ub"):
                        violations.append({"what": "oracle scope (all intermediates representable) disagrees with the model's flags", "class": "corr-scope", "no_input": True,
                                           "broken": "correspondence: scope of C09_convert_exact", "rec": dict(base, kind="corr", op="in", v1=v, v2=0, model=mans[midx[k]])})
                if not scope:
                    stats["skipped_out_of_scope"] += 1
                    continue
                stats["points_in_scope"] += 1
                distinct.add(("E", ins["id"]))
                if r["val"] == "trap" or int(r["val"]) != want or r["ub"] != "0":
                    violations.append({"what": f"explicit conversion {ins['r1']}->{ins['r2']} of point {v} [{ukey(ins['u1'])}] to [{ukey(ins['u2'])}] (form {m[2]}) returns "
                                               f"{r['val']} (sanitizer reports {r['ub']}), exact truncated affine value {want}",
                                       "class": f"oracle-convert-{ins['r1']}-{ins['r2']}", "rec": dict(base, kind="oracle", op="in", form=m[2], v1=v, v2=0, got=r["val"], want=want)})
            elif m[0] == "PO":
                w, v1, v2 = m[2], m[3], m[4]
                key = (ins["id"], v1, v2)
                if key not in ocache:
                    cpu = cpus[ins["id"]]
                    R = common_ty(ins["r1"], ins["r2"])
                    s1, x1 = implicit_steps(R, ins["u1"], cpu, v1)
                    s2, x2 = implicit_steps(R, ins["u2"], cpu, v2)
                    ocache[key] = (steps_ok(s1) and steps_ok(s2), x1, x2)
                scope, x1, x2 = ocache[key]
                p1 = v1 * scale(ins["u1"]) + origin(ins["u1"])
                p2 = v2 * scale(ins["u2"]) + origin(ins["u2"])
                stats["points"] += 1
                if w in (10, 11, 12, 13, 14, 15, 16, 19):
                    mm = kv(mans[midx[k]])
                    if mm["val"] == "ub":
                        stats["model_ub_cases"] += 1
                    elif mm["val"] != r["val"] and (scope or mm["wrapped"] == "0"):
                        violations.append({"what": f"model and implementation differ for point op {w} at ({v1}, {v2})", "class": "corr-pointop", "no_input": True,
                                           "broken": "correspondence: c09op", "rec": dict(base, kind="corr", op=w, v1=v1, v2=v2, model=mans[midx[k]], impl=a)})
                    if scope and (mm["wrapped"] != "0" or mm["narrowed"] != "0" or mm["val"] == "ub") and w != 16:
                        violations.append({"what": "oracle scope disagrees with the model's flags (point op)", "class": "corr-scope-o", "no_input": True,
                                           "broken": "correspondence: scope of C09_order", "rec": dict(base, kind="corr", op=w, v1=v1, v2=v2, model=mans[midx[k]])})
                if not scope:
                    stats["skipped_out_of_scope"] += 1
                    continue
                want = {10: p1 == p2, 11: p1 != p2, 12: p1 < p2, 13: p1 <= p2, 14: p1 > p2, 15: p1 >= p2, 17: p1 < p2, 18: p1 == p2,
                        21: p2 < p1, 22: p1 != p2}.get(w)
                if w in (16, 20):
                    d = ((p1 - p2) if w == 16 else (p2 - p1)) / cpus[ins["id"]]["scale"]
                    if d.denominator != 1 or not in_range(common_ty(ins["r1"], ins["r2"]), d.numerator):
                        stats["skipped_out_of_scope"] += 1
                        continue
                    want = d.numerator
                elif w == 19:
                    want = 0 if p1 < p2 else (1 if p1 == p2 else 2)
                else:
                    want = int(want)
                stats["points_in_scope"] += 1
                distinct.add(("O", ins["id"]))
                if len(samples) < 12 and w in (12, 16) and abs(v1) > 2:
                    samples.append({"request": lines[k], "harness": a, "oracle_want": want})
                if r["val"] == "trap" or int(r["val"]) != want or r["ub"] != "0":
                    violations.append({"what": f"point op {w} on ({v1} [{ukey(ins['u1'])}] {ins['r1']}, {v2} [{ukey(ins['u2'])}] {ins['r2']}) returns {r['val']} "
                                               f"(sanitizer reports {r['ub']}), exact answer by absolute position {want}",
                                       "class": f"oracle-pointop-{w}-{ins['r1']}-{ins['r2']}", "rec": dict(base, kind="oracle", op=w, v1=v1, v2=v2, got=r["val"], want=want)})
    # negative probes for the model's gates
    negs = [i for i in insts if not gates[i["id"]]]
    rng.shuffle(negs)
    negs = negs[: (16 if tier == "quick" else 64)]

    def neg(ins):
        p = os.path.join(wd, f"neg{ins['id']}.cc")
        write_table(p, "tneg", [ins], {ins["id"]: True})
        rc, out = cxx(p, None, san=False, syntax_only=True)
        return ins, rc, out
    for ins, rc, out in pmap(neg, negs):
        stats["neg_probes"] += 1
        if rc == 0:
            violations.append({"what": "conversion/operation compiles although the model's gate rejects it", "class": "corr-gate", "no_input": True,
                               "broken": "correspondence: Au.Point gate", "rec": dict(base_rec(ins, "g++ -std=c++14"), kind="corr", observable="compiles")})
    # forbidden operations: the compiler's verdict
    def prb(x):
        name, stmt, must_fail = x
        p = os.path.join(wd, "probe_" + name.replace("*", "x").replace("/", "d").replace("+", "p").replace("<", "l").replace("=", "e") + ".cc")
        open(p, "w").write(probe_src(stmt))
        res = []
        for (comp, std) in (("g++", "c++14"), ("clang++-14", "c++20" if tier == "thorough" or seed % 2 == 0 else "c++17")):
            rc, out = cxx(p, None, compiler=comp, std=std, san=False, syntax_only=True)
            res.append((comp, std, rc, out))
        return name, must_fail, res
    for name, must_fail, res in pmap(prb, [(n, s, True) for n, s in FORBIDDEN] + [(n, s, False) for n, s in ALLOWED]):
        for comp, std, rc, out in res:
            stats["forbidden_probes" if must_fail else "allowed_probes"] += 1
            if must_fail and rc == 0:
                violations.append({"what": f"forbidden operation `{name}` compiles under {comp} -std={std}", "class": f"oracle-forbidden-{name}",
                                   "rec": {"kind": "oracle", "op": "forbidden", "probe": name, "config": f"{comp} -std={std}"}})
            if not must_fail and rc != 0:
                violations.append({"what": f"permitted operation `{name}` is rejected under {comp} -std={std}", "class": f"oracle-allowed-{name}",
                                   "rec": {"kind": "oracle", "op": "allowed", "probe": name, "config": f"{comp} -std={std}", "out": out[-600:]}})
    total = stats["sweep_in_scope"] + stats["points_in_scope"] + stats["forbidden_probes"] + stats["allowed_probes"]
    coverage = {
        "evaluations": total,
        "distinct_nontrivial": len(distinct),
        "rule": "case = (instance, value(s)) executed on the real headers inside the statement's scope (all intermediates of the "
                "documented algorithm representable). Instances: ordered pairs of point units among K, C, F, mK, cC, kF, R, dC and "
                "seed-generated units (rational scale, positive/zero/negative origin in its own unit) x rep pairs; explicit "
                "conversions: every value within +-2^15 of 0 and of the target origin (in-process exact oracle) + guard-directed and "
                "random points; comparisons / point-point: near-ties in absolute position + random; forbidden operations: negative "
                "compile probes on two compilers. distinct_nontrivial = instances with an in-scope case executed",
        "samples": samples, "exhaustive": False, "distribution": stats, "explore_s": round(time.time() - t0, 2),
    }
    return coverage, violations


def replay(prop, rec):
    from vlib import workdir
    r = rec.get("rec", {})
    if r.get("op") in ("forbidden", "allowed"):
        wd = workdir(prop + "_replay")
        stmt = dict(FORBIDDEN + ALLOWED)[r["probe"]]
        p = os.path.join(wd, "probe.cc")
        open(p, "w").write(probe_src(stmt))
        comp, std = r["config"].split(" -std=")
        rc, out = cxx(p, None, compiler=comp, std=std, san=False, syntax_only=True)
        bad = (rc == 0) if r["op"] == "forbidden" else (rc != 0)
        print(f"probe {r['probe']}: compiler exit {rc}")
        if bad:
            print(f"VIOLATION property={prop} replay={rec.get('_path', '<given>')}")
            return 1
        print("replay: property holds on this case")
        return 0
    if r.get("observable") in ("common-point-unit", "diffrep") and all(k in r for k in ("r1", "r2", "u1", "u2")):
        wd = workdir(prop + "_replay")
        f1, f2 = [int(x) for x in r["u1"].split()], [int(x) for x in r["u2"].split()]
        ins = {"id": 0, "kind": "O", "r1": r["r1"], "r2": r["r2"], "u1": U(*f1), "u2": U(*f2)}
        files = write_harness(wd, [ins], {0: True, ("cmp3", 0): False}, nchunks=1)
        cfg = r.get("config", "g++ -std=c++14").split()
        exe, fails, _ = build_harness(wd, files, cfg[0], cfg[1].replace("-std=", ""), "rp")
        if exe is None:
            print("replay: does not build:", fails[0]["output"][-1200:])
            print(f"VIOLATION property={prop} replay={rec.get('_path', '<given>')} no-failing-input-found")
            return 1
        ans, _ = run_harness(exe, ["I 0"], shards=1)
        a = kv(ans[0])
        cpu = common_point_unit(ins["u1"], ins["u2"])
        want = (scale(ins["u1"]) / cpu["scale"], scale(ins["u2"]) / cpu["scale"], int(origin(ins["u1"]) == cpu["origin"]))
        got = (Fraction(int(a["k1"])), Fraction(int(a["k2"])), int(a["first"]))
        wr = common_ty(ins["r1"], ins["r2"])
        print("impl  :", ans[0])
        print("oracle: (k1, k2, origin-is-first) =", want, "diff rep =", wr)
        if got != want or a["diffrep"] != f"{INT_TYPES[wr][1]},{int(INT_TYPES[wr][2])}":
            print(f"VIOLATION property={prop} replay={rec.get('_path', '<given>')}")
            return 1
        print("replay: property holds on this case")
        return 0
    if not all(k in r for k in ("kind_inst", "r1", "r2", "u1", "u2", "v1")):
        print("replay: record has no (instance, value); it names:", rec.get("what"), "/", rec.get("broken"))
        return 1
    wd = workdir(prop + "_replay")
    drv = RetryDriver()
    f1, f2 = [int(x) for x in r["u1"].split()], [int(x) for x in r["u2"].split()]
    ins = {"id": 0, "kind": r["kind_inst"], "r1": r["r1"], "r2": r["r2"], "u1": U(*f1), "u2": U(*f2)}
    for side in ("1", "2"):
        if r.get("cpp" + side):
            ins["u" + side]["cpp"] = r["cpp" + side]
    files = write_harness(wd, [ins], {0: True, ("cmp3", 0): str(r.get("op")) == "19"}, nchunks=1)
    cfg = r.get("config", "g++ -std=c++14").split()
    exe, fails, _ = build_harness(wd, files, cfg[0], cfg[1].replace("-std=", ""), "rp")
    if exe is None:
        print("replay: does not build:", fails[0]["output"][-1200:])
        print(f"VIOLATION property={prop} replay={rec.get('_path', '<given>')} no-failing-input-found")
        return 1
    if ins["kind"] in ("M", "Q", "F"):
        viol, st, dist = [], {"points": 0, "points_in_scope": 0, "implicit_in_scope": 0, "shift_in_scope": 0, "skipped_out_of_scope": 0,
                              "float_evals": 0, "float_max_err_u": 0.0}, set()
        base = base_rec(ins, " ".join(cfg))
        w = int(r["op"])
        if ins["kind"] == "F":
            v = float.fromhex(r["v1"]) if isinstance(r["v1"], str) else r["v1"]
            ans, _ = run_harness(exe, [f"F 0 {w} {float(v).hex()}"], shards=1)
            print("impl  :", ans[0])
            check_point_float(ins, w, v, kv(ans[0]), base, viol, st, dist)
        elif ins["kind"] == "M":
            v = int(r["v1"])
            ans, _ = run_harness(exe, [f"P 0 {w} {v} 0"], shards=1)
            ml = drv.ask([f"c09imp {ins['r1']} {ukey(ins['u1'])} {ukey(ins['u2'])} {v}"])[0]
            print("impl  :", ans[0]); print("model :", ml)
            check_implicit(ins, w, v, kv(ans[0]), ans[0], ml, base, viol, st, dist)
        else:
            v1, v2 = int(r["v1"]), int(r["v2"])
            ans, _ = run_harness(exe, ["I 0", f"P 0 {w} {v1} {v2}"], shards=1)
            print("impl  :", ans[0], "|", ans[1])
            check_shift(ins, w, v1, v2, kv(ans[1]), kv(ans[0]), base, viol, st, dist)
        for x in viol:
            print("oracle:", x["what"][:300])
        if any(not x.get("no_input") for x in viol):
            print(f"VIOLATION property={prop} replay={rec.get('_path', '<given>')}")
            return 1
        if viol:
            print(f"VIOLATION property={prop} replay={rec.get('_path', '<given>')} no-failing-input-found")
            return 1
        print("replay: property holds on this case")
        return 0
    v1, v2 = int(r["v1"]), int(r.get("v2", 0))
    if ins["kind"] == "E":
        plan = explicit_plan(ins["r1"], ins["r2"], ins["u1"], ins["u2"])
        scope, want = explicit_oracle(plan, ins["r1"], v1)
        ans, _ = run_harness(exe, [f"P 0 {r.get('form', 0)} {v1} 0"], shards=1)
        m = drv.ask([f"c09in {ins['r1']} {ins['r2']} {ukey(ins['u1'])} {ukey(ins['u2'])} {v1}"])[0]
    else:
        w = int(r["op"])
        cpu = common_point_unit(ins["u1"], ins["u2"])
        R = common_ty(ins["r1"], ins["r2"])
        s1, _x1 = implicit_steps(R, ins["u1"], cpu, v1)
        s2, _x2 = implicit_steps(R, ins["u2"], cpu, v2)
        scope = steps_ok(s1) and steps_ok(s2)
        p1 = v1 * scale(ins["u1"]) + origin(ins["u1"])
        p2 = v2 * scale(ins["u2"]) + origin(ins["u2"])
        want = {10: p1 == p2, 11: p1 != p2, 12: p1 < p2, 13: p1 <= p2, 14: p1 > p2, 15: p1 >= p2, 17: p1 < p2, 18: p1 == p2,
                21: p2 < p1, 22: p1 != p2}.get(w)
        want = int(want) if want is not None else (int((p1 - p2) / cpu["scale"]) if w == 16 else (int((p2 - p1) / cpu["scale"]) if w == 20 else (0 if p1 < p2 else (1 if p1 == p2 else 2))))
        ans, _ = run_harness(exe, [f"P 0 {w} {v1} {v2}"], shards=1)
        opn = {10: "eq", 11: "ne", 12: "lt", 13: "le", 14: "gt", 15: "ge", 16: "sub"}.get(w, "eq")
        m = drv.ask([f"c09op {opn} {ins['r1']} {ins['r2']} {ukey(ins['u1'])} {ukey(ins['u2'])} {v1} {v2}"])[0]
    a = kv(ans[0])
    print("impl  :", ans[0])
    print("model :", m)
    print(f"oracle: in_scope={scope} want={want}")
    if scope and (a["val"] == "trap" or int(a["val"]) != want or a["ub"] != "0"):
        print(f"VIOLATION property={prop} replay={rec.get('_path', '<given>')}")
        return 1
    print("replay: property holds on this case")
    return 0

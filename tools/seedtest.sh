#!/bin/sh
# seedtest.sh <patch.diff> <ID> [<ID>...]: run checks against a private copy of /repo with the patch applied
# (equivalent to `git -C /repo apply` + run + `git -C /repo checkout -- .`, without disturbing concurrent users of /repo).
set -e
PATCH="$1"; shift
D=/verif/.work/seed_repo_$$
mkdir -p "$D"
rsync -a --exclude _build /repo/ "$D"/
git -C "$D" apply "$PATCH"
for id in "$@"; do
  echo "== $id with $(basename $(dirname $PATCH))/$(basename $PATCH)"
  AU_REPO="$D" /verif/check "$id" --tier quick 2>&1 | grep -E "^(VIOLATION|KNOWN-FINDING|OK)" | cut -c1-260
  for f in /verif/.work/replay/${id}_*.json; do [ -f "$f" ] && python3 -c "
import json,sys
r=json.load(open('$f')); print('   ->', r.get('what','')[:230])"; done
done
rm -rf "$D"

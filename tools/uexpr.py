"""Unit-expression trees: random generation, algebra-preserving rewritings, C++ spellings, the
driver's s-expression syntax, and the exact (Fraction) exponent oracle."""
from fractions import Fraction

import aulib

# Tree nodes:  ("atom", key) | ("mul", a, b) | ("div", a, b) | ("pow", a, Fraction) | ("scale", a, magdict)

POWS = [Fraction(2), Fraction(3), Fraction(-1), Fraction(-2), Fraction(1, 2), Fraction(1, 3), Fraction(-1, 2),
        Fraction(2, 3), Fraction(3, 2), Fraction(-3)]

SCALES = [
    ({"p2": 1}, "au::mag<2>()"), ({"p3": 1}, "au::mag<3>()"), ({"p2": 2, "p3": 1}, "au::mag<12>()"),
    ({"p2": 3, "p5": 3}, "au::mag<1000>()"), ({"p7": 1, "p11": -1}, "(au::mag<7>() / au::mag<11>())"),
    ({"p2": -3}, "(au::ONE / au::mag<8>())"), ({"pi": 1}, "au::Magnitude<au::Pi>{}"),
    ({"pi": 1, "p2": 2, "p3": -2, "p5": -1}, "(au::Magnitude<au::Pi>{} * au::mag<4>() / au::mag<45>())"),
    ({"p2": Fraction(1, 2)}, "au::root<2>(au::mag<2>())"), ({"p5": Fraction(-1, 3)}, "au::root<3>(au::ONE / au::mag<5>())"),
    ({"p127": 1, "p3": 1}, "au::mag<381>()"), ({"p2147483647": 1}, "au::mag<2147483647>()"),
    ({"pi": 2}, "au::pow<2>(au::Magnitude<au::Pi>{})"),
    # scalings by exactly one, and exact inverses of earlier entries (nested scalings must collapse correctly)
    ({}, "au::ONE"), ({}, "au::mag<1>()"), ({}, "(au::mag<3>() / au::mag<3>())"),
    ({"p2": -1}, "(au::ONE / au::mag<2>())"), ({"p3": -1}, "(au::ONE / au::mag<3>())"), ({"p2": 3}, "au::mag<8>()"),
    ({"pi": -1}, "(au::ONE / au::Magnitude<au::Pi>{})"), ({"p7": -1, "p11": 1}, "(au::mag<11>() / au::mag<7>())"),
]


def scale_of(magdict):
    """A scale node payload (magdict, C++ expression) for an arbitrary exponent dictionary {"p<prime>"|"pi": Fraction}."""
    parts = []
    md = {}
    for b, e in sorted(magdict.items()):
        e = Fraction(e)
        if e == 0:
            continue
        md[b] = e if e.denominator != 1 else int(e)
        base = "au::Magnitude<au::Pi>{}" if b == "pi" else f"au::mag<{int(b[1:])}>()"
        x = base if e.numerator == 1 else f"au::pow<{e.numerator}>({base})"
        if e.denominator != 1:
            x = f"au::root<{e.denominator}>({x})"
        parts.append(x)
    return (md, "(" + " * ".join(parts) + ")" if parts else "au::ONE")


class Atoms:
    """The atom universe of one run: library units, prefixed units; (dim, mag) from the dumper."""

    def __init__(self, wd, rng, n_prefixed=24):
        self.units = aulib.scan_units()
        self.prefixes = aulib.scan_prefixes()
        extra = []
        self.prefixed = []
        cands = [u for u in self.units]
        for _ in range(n_prefixed):
            u = rng.choice(cands)
            p = rng.choice(self.prefixes)
            key = f"{p['name']}<{u['name']}>"
            if any(k == key for k, _ in extra):
                continue
            extra.append((key, f"au::{p['name']}<au::{u['name']}>"))
            self.prefixed.append((key, p, u))
        self.info = aulib.dump_units(wd, self.units, extra)
        self.atoms = {}
        for i, u in enumerate(self.units):
            d = self.info[u["name"]]
            self.atoms[u["name"]] = {
                "id": i, "dim": d["dim"], "mag": d["mag"], "has_origin": d["has_origin"], "label": d["label"],
                "cxx_unit": f"au::{u['name']}{{}}", "cxx_type": f"au::{u['name']}",
                "cxx_maker": f"au::{u['maker']}" if u["maker"] else None,
                "cxx_symbol": f"au::symbols::{u['symbol']}" if u["symbol"] else None,
                "cxx_singular": f"au::{u['singular']}" if u.get("singular") else None,
                "cxx_constant": f"au::make_constant(au::{u['name']}{{}})", "prefix": None, "base": u["name"]}
        for j, (key, p, u) in enumerate(self.prefixed):
            d = self.info[key]
            self.atoms[key] = {
                "id": 1000 + j, "dim": d["dim"], "mag": d["mag"], "has_origin": d["has_origin"], "label": d["label"],
                "cxx_unit": f"au::{p['name']}<au::{u['name']}>{{}}", "cxx_type": f"au::{p['name']}<au::{u['name']}>",
                "cxx_maker": f"au::{p['applier']}(au::{u['maker']})" if u["maker"] else None,
                "cxx_symbol": f"au::{p['applier']}(au::symbols::{u['symbol']})" if u["symbol"] else None,
                "cxx_singular": f"au::{p['applier']}(au::{u['singular']})" if u.get("singular") else None,
                "cxx_constant": f"au::make_constant(au::{p['name']}<au::{u['name']}>{{}})",
                "prefix": p, "base": u["name"]}

    def headers(self):
        return sorted({u["header"] for u in self.units})

    def sig(self, key):
        a = self.atoms[key]
        return (tuple(sorted(a["dim"].items())), tuple(sorted(a["mag"].items())))


def add(p, q, k=1):
    out = dict(p)
    for b, e in q.items():
        out[b] = out.get(b, 0) + Fraction(e) * k
        if out[b] == 0:
            del out[b]
    return out


def scalep(p, k):
    return {b: Fraction(e) * k for b, e in p.items() if Fraction(e) * k != 0}


def sem(t, A):
    """Exact (dim, mag) exponent dictionaries of a tree."""
    k = t[0]
    if k == "atom":
        a = A.atoms[t[1]]
        return dict(a["dim"]), dict(a["mag"])
    if k == "mul":
        d1, m1 = sem(t[1], A)
        d2, m2 = sem(t[2], A)
        return add(d1, d2), add(m1, m2)
    if k == "div":
        d1, m1 = sem(t[1], A)
        d2, m2 = sem(t[2], A)
        return add(d1, d2, -1), add(m1, m2, -1)
    if k == "pow":
        d, m = sem(t[1], A)
        return scalep(d, t[2]), scalep(m, t[2])
    if k == "scale":
        d, m = sem(t[1], A)
        return d, add(m, {b: Fraction(e) for b, e in t[2][0].items()})
    raise ValueError(k)


def atoms_of(t):
    if t[0] == "atom":
        return [t[1]]
    if t[0] in ("mul", "div"):
        return atoms_of(t[1]) + atoms_of(t[2])
    return atoms_of(t[1])


def has_scale(t):
    if t[0] == "atom":
        return False
    if t[0] == "scale":
        return True
    if t[0] in ("mul", "div"):
        return has_scale(t[1]) or has_scale(t[2])
    return has_scale(t[1])


def gen_tree(rng, A, depth, pool):
    """Random tree; `pool` = atom keys allowed (twin-free by construction of the caller)."""
    if depth == 0 or rng.random() < 0.25:
        return ("atom", rng.choice(pool))
    r = rng.random()
    if r < 0.4:
        return ("mul", gen_tree(rng, A, depth - 1, pool), gen_tree(rng, A, depth - 1, pool))
    if r < 0.65:
        return ("div", gen_tree(rng, A, depth - 1, pool), gen_tree(rng, A, depth - 1, pool))
    if r < 0.85:
        return ("pow", gen_tree(rng, A, depth - 1, pool), rng.choice(POWS))
    if rng.random() < 0.4:
        # nested scaling of an (anonymous) scaled unit: by one, by the exact inverse, or by something else
        inner = ("scale", gen_tree(rng, A, max(0, depth - 2), pool), rng.choice(SCALES))
        return ("scale", inner, rng.choice(SCALES[-8:] if rng.random() < 0.7 else SCALES))
    return ("scale", gen_tree(rng, A, depth - 1, pool), rng.choice(SCALES))


def twin_free_pool(rng, A, size):
    """Atom keys, no two with identical (dim, mag): the documented 'broken strict total ordering'
    exclusion, applied conservatively."""
    keys = list(A.atoms)
    rng.shuffle(keys)
    seen, pool = set(), []
    for k in keys:
        s = A.sig(k)
        if s in seen:
            continue
        seen.add(s)
        pool.append(k)
        if len(pool) >= size:
            break
    return pool


def rewrite(rng, t):
    """One random algebra-preserving rewriting (scale nodes are opaque)."""
    k = t[0]
    if k in ("atom", "scale"):
        return t
    if k == "mul":
        a, b = t[1], t[2]
        r = rng.random()
        if r < 0.35:
            return ("mul", rewrite(rng, b), rewrite(rng, a))
        if r < 0.55 and a[0] == "mul":
            return ("mul", rewrite(rng, a[1]), ("mul", rewrite(rng, a[2]), rewrite(rng, b)))
        if r < 0.7 and b[0] == "mul":
            return ("mul", ("mul", rewrite(rng, a), rewrite(rng, b[1])), rewrite(rng, b[2]))
        if r < 0.8 and b[0] == "div":
            return ("div", ("mul", rewrite(rng, a), rewrite(rng, b[1])), rewrite(rng, b[2]))
        return ("mul", rewrite(rng, a), rewrite(rng, b))
    if k == "div":
        a, b = t[1], t[2]
        r = rng.random()
        if r < 0.4:
            return ("mul", rewrite(rng, a), ("pow", rewrite(rng, b), Fraction(-1)))
        if r < 0.6 and b[0] == "div":
            return ("mul", rewrite(rng, a), ("div", rewrite(rng, b[2]), rewrite(rng, b[1])))
        if r < 0.75:
            return ("pow", ("div", rewrite(rng, b), rewrite(rng, a)), Fraction(-1))
        return ("div", rewrite(rng, a), rewrite(rng, b))
    if k == "pow":
        a, q = t[1], t[2]
        r = rng.random()
        if r < 0.4 and a[0] == "mul":
            return ("mul", ("pow", rewrite(rng, a[1]), q), ("pow", rewrite(rng, a[2]), q))
        if r < 0.6 and a[0] == "div":
            return ("div", ("pow", rewrite(rng, a[1]), q), ("pow", rewrite(rng, a[2]), q))
        if r < 0.8 and a[0] == "pow":
            return ("pow", rewrite(rng, a[1]), a[2] * q)
        if r < 0.9 and q.denominator == 1 and q.numerator == 2:
            ra = rewrite(rng, a)
            return ("mul", ra, ra)
        return ("pow", rewrite(rng, a), q)
    return t


def cxx_pow(x, q):
    q = Fraction(q)
    # unqualified: the wrappers' pow/root are hidden friends (found by ADL only); the TU has
    # `using au::pow; using au::root;` in scope
    if q == 0:
        return f"pow<0>({x})"
    if q.denominator == 1:
        return f"pow<{q.numerator}>({x})"
    if q.numerator == 1:
        return f"root<{q.denominator}>({x})"
    return f"root<{q.denominator}>(pow<{q.numerator}>({x}))"


def cxx(t, A, spelling):
    """C++ expression for a tree in one spelling: 'unit' | 'maker' | 'symbol' | 'constant' (all four support the whole algebra),
    'singular' (SingularNameFor: products and integer powers only) or 'mixed' (maker / singular, singular * maker at the top).
    None if an atom lacks the spelling or the spelling does not support the tree's shape."""
    k = t[0]
    if spelling == "singular":
        if k == "atom":
            return A.atoms[t[1]].get("cxx_singular")
        if k == "mul":
            a, b = cxx(t[1], A, spelling), cxx(t[2], A, spelling)
            return None if a is None or b is None else f"({a} * {b})"
        if k == "pow" and Fraction(t[2]).denominator == 1:
            a = cxx(t[1], A, spelling)
            return None if a is None else f"pow<{Fraction(t[2]).numerator}>({a})"
        return None
    if spelling == "mixed":
        if k == "div":
            a, b = cxx(t[1], A, "maker"), cxx(t[2], A, "singular")
            return None if a is None or b is None else f"({a} / {b})"
        if k == "mul":
            a, b = cxx(t[1], A, "singular"), cxx(t[2], A, "maker")
            return None if a is None or b is None else f"({a} * {b})"
        return None
    if k == "atom":
        return A.atoms[t[1]].get("cxx_" + spelling)
    if k in ("mul", "div"):
        a, b = cxx(t[1], A, spelling), cxx(t[2], A, spelling)
        if a is None or b is None:
            return None
        return f"({a} {'*' if k == 'mul' else '/'} {b})"
    if k == "pow":
        a = cxx(t[1], A, spelling)
        return None if a is None else cxx_pow(a, t[2])
    if k == "scale":
        a = cxx(t[1], A, spelling)
        return None if a is None else f"({a} * {t[2][1]})"
    raise ValueError(k)


def sexpr(t, A):
    """The Lean driver's syntax (tokens separated by single spaces)."""
    k = t[0]
    if k == "atom":
        a = A.atoms[t[1]]
        return f"( n {a['id']} {aulib.pack_str(a['dim'], 'dim')} {aulib.pack_str(a['mag'], 'mag')} )"
    if k in ("mul", "div"):
        return f"( {k} {sexpr(t[1], A)} {sexpr(t[2], A)} )"
    if k == "pow":
        q = Fraction(t[2])
        return f"( pow {sexpr(t[1], A)} {q.numerator}/{q.denominator} )"
    if k == "scale":
        m = {b: Fraction(e) for b, e in t[2][0].items()}
        return f"( scale {sexpr(t[1], A)} {aulib.pack_str(m, 'mag')} )"
    raise ValueError(k)


def show(t):
    k = t[0]
    if k == "atom":
        return t[1]
    if k == "mul":
        return f"({show(t[1])} * {show(t[2])})"
    if k == "div":
        return f"({show(t[1])} / {show(t[2])})"
    if k == "pow":
        return f"({show(t[1])})^{t[2]}"
    return f"({show(t[1])} * {t[2][1]})"


def size(t):
    if t[0] == "atom":
        return 1
    if t[0] in ("mul", "div"):
        return 1 + size(t[1]) + size(t[2])
    return 1 + size(t[1])

"""Shared plumbing for the /verif checks: paths, lake build + axiom audit, the Lean driver, C++
compilation, evidence, known findings, violation reporting."""
import fcntl
import hashlib
import json
import os
import random
import re
import shutil
import subprocess
import sys
import time
from concurrent.futures import ThreadPoolExecutor

VERIF = os.path.dirname(os.path.dirname(os.path.abspath(__file__)))
REPO = os.environ.get("AU_REPO", "/repo")
LEAN = os.path.join(VERIF, "lean")
WORKROOT = os.path.join(VERIF, ".work")
# evidence under /verif/evidence describes runs against /repo itself; runs against a private mutated copy
# (AU_REPO=..., tools/seedtest.sh) write theirs to .work so the committed evidence is never overwritten by them
EVID = os.path.join(VERIF, "evidence") if "AU_REPO" not in os.environ else os.path.join(VERIF, ".work", "evidence_seed")
os.makedirs(EVID, exist_ok=True)
AU_INC = os.path.join(REPO, "au", "code")
DRIVER = os.path.join(LEAN, ".lake", "build", "bin", "audriver")
NCPU = os.cpu_count() or 4

ALLOWED_AXIOMS = {"propext", "Classical.choice", "Quot.sound"}
FORBIDDEN = re.compile(
    r"\b(sorry|admit|native_decide|bv_decide|implemented_by|unsafe)\b|^\s*axiom\s|maxHeartbeats\s+0\b")

INT_TYPES = {
    "i8": ("int8_t", 8, True), "u8": ("uint8_t", 8, False),
    "i16": ("int16_t", 16, True), "u16": ("uint16_t", 16, False),
    "i32": ("int32_t", 32, True), "u32": ("uint32_t", 32, False),
    "i64": ("int64_t", 64, True), "u64": ("uint64_t", 64, False),
}


def ty_lo(t):
    _, b, s = INT_TYPES[t]
    return -(1 << (b - 1)) if s else 0


def ty_hi(t):
    _, b, s = INT_TYPES[t]
    return (1 << (b - 1)) - 1 if s else (1 << b) - 1


def promote(t):
    return "i32" if INT_TYPES[t][1] < 32 else t


def tier_seed(argv_tier=None):
    tier = argv_tier or os.environ.get("VERIF_TIER") or "quick"
    if tier not in ("quick", "thorough"):
        tier = "quick"
    try:
        seed = int(os.environ.get("VERIF_SEED", "0"))
    except ValueError:
        seed = 0
    return tier, seed


def workdir(prop):
    d = os.path.join(WORKROOT, prop)
    shutil.rmtree(d, ignore_errors=True)
    os.makedirs(d, exist_ok=True)
    return d


# Watchdogs are on CPU time (RLIMIT_CPU of the child and, individually, of its children): the machine is often saturated
# (load 100+), and a wall-clock limit then turns a 12-second compile into a false alarm.  The wall-clock timeout that remains
# is a backstop of hours.
WALL_BACKSTOP = 6 * 3600


def _cpu_limiter(seconds):
    def f():
        import resource
        resource.setrlimit(resource.RLIMIT_CPU, (int(seconds), int(seconds) + 10))
    return f


def run(cmd, cwd=None, inp=None, timeout=None, env=None, cpu_limit=None):
    e = dict(os.environ)
    if env:
        e.update(env)
    p = subprocess.run(cmd, cwd=cwd, input=inp, capture_output=True, text=True, timeout=timeout, env=e,
                       preexec_fn=_cpu_limiter(cpu_limit) if cpu_limit else None)
    return p.returncode, p.stdout, p.stderr


# ----------------------------------------------------------------------------------------------
# Lean side
# ----------------------------------------------------------------------------------------------

class LakeLock:
    def __enter__(self):
        os.makedirs(WORKROOT, exist_ok=True)
        self.f = open(os.path.join(WORKROOT, ".lake.lock"), "w")
        fcntl.flock(self.f, fcntl.LOCK_EX)
        return self

    def __exit__(self, *a):
        fcntl.flock(self.f, fcntl.LOCK_UN)
        self.f.close()


def lake_build(targets):
    """Build the given lake targets (modules / exe). Returns (ok, output)."""
    with LakeLock():
        rc, out, err = run(["lake", "build"] + list(targets), cwd=LEAN, timeout=WALL_BACKSTOP)
    return rc == 0, out + err


def failing_decls(lake_output):
    """Names of declarations lake reported errors in (best effort: file:line → nearest theorem)."""
    res = []
    for m in re.finditer(r"error: (\S+\.lean):(\d+):(\d+):", lake_output):
        path, line = m.group(1), int(m.group(2))
        full = path if os.path.isabs(path) else os.path.join(LEAN, path)
        name = None
        try:
            lines = open(full).read().split("\n")
            for i in range(min(line, len(lines)) - 1, -1, -1):
                mm = re.match(r"\s*(?:theorem|lemma|def|example|instance)\s+(\S+)", lines[i])
                if mm:
                    name = mm.group(1)
                    break
        except OSError:
            pass
        res.append({"file": path, "line": line, "decl": name})
    return res


def grep_forbidden(paths=None):
    """Scan model/proof sources for forbidden constructs, ignoring comments."""
    hits = []
    roots = paths or [os.path.join(LEAN, d) for d in ("AuModel", "AuProofs", "Generated", "Driver")]
    for root in roots:
        for dp, _, fs in os.walk(root):
            for f in fs:
                if not f.endswith(".lean"):
                    continue
                p = os.path.join(dp, f)
                txt = open(p).read()
                txt = re.sub(r"/-.*?-/", lambda m: "\n" * m.group(0).count("\n"), txt, flags=re.S)
                for i, line in enumerate(txt.split("\n"), 1):
                    line = line.split("--")[0]
                    # `unsafe` etc. inside string literals are not code
                    line = re.sub(r'"[^"]*"', '""', line)
                    if FORBIDDEN.search(line):
                        hits.append(f"{os.path.relpath(p, LEAN)}:{i}: {line.strip()}")
    return hits


def audit_axioms(module, theorems, tag):
    """`#print axioms` for each theorem (namespace Au). Returns dict name → sorted axiom list, or
    None for a theorem that does not exist."""
    os.makedirs(WORKROOT, exist_ok=True)
    src = os.path.join(WORKROOT, f"audit_{tag}.lean")
    with open(src, "w") as f:
        f.write("".join(f"import {m}\n" for m in module))
        for t in theorems:
            f.write(f"#print axioms {t}\n")
    with LakeLock():
        rc, out, err = run(["lake", "env", "lean", src], cwd=LEAN, timeout=WALL_BACKSTOP, cpu_limit=3600)
    res = {t: None for t in theorems}
    text = out + err
    for t in theorems:
        m = re.search(r"'" + re.escape(t) + r"' depends on axioms: \[([^\]]*)\]", text, re.S)
        if m:
            res[t] = sorted(a.strip() for a in m.group(1).replace("\n", " ").split(",") if a.strip())
        elif re.search(r"'" + re.escape(t) + r"' does not depend on any axioms", text):
            res[t] = []
    return res, text


def load_obligations(prop):
    return json.load(open(os.path.join(VERIF, "tools", "obligations", f"{prop}.json")))


def prove(prop, extra_modules=()):
    """Build the property's modules, audit its theorems. Returns a dict:
    {obligations, discharged, failed: [..], axioms: {...}, grep: [...], checker_cmd, build_output}"""
    ob = load_obligations(prop)
    modules = list(ob["modules"]) + list(extra_modules)
    theorems = list(ob["theorems"])
    t0 = time.time()
    ok, out = lake_build(modules + ["audriver"])
    res = {
        "obligations": len(theorems), "discharged": 0, "failed": [], "axioms": {},
        "grep": grep_forbidden(), "build_ok": ok, "build_output": out[-6000:] if not ok else "",
        "checker_cmd": "cd lean && lake build " + " ".join(modules) +
                       " && lake env lean <#print axioms of every registered theorem>",
        "theorems": theorems, "modules": modules,
    }
    if ok:
        ax, text = audit_axioms(modules, theorems, prop)
        res["axioms"] = ax
        for t in theorems:
            a = ax.get(t)
            if a is None:
                res["failed"].append({"theorem": t, "why": "missing"})
            elif not set(a) <= ALLOWED_AXIOMS:
                res["failed"].append({"theorem": t, "why": "axioms " + ",".join(a)})
            else:
                res["discharged"] += 1
    else:
        fd = failing_decls(out)
        names = {d["decl"] for d in fd if d["decl"]}
        for t in theorems:
            if t.split(".")[-1] in names:
                res["failed"].append({"theorem": t, "why": "does not compile"})
        if not res["failed"]:
            res["failed"].append({"theorem": "<build>", "why": "lake build failed", "where": fd[:5]})
    if res["grep"]:
        res["failed"].append({"theorem": "<grep>", "why": "forbidden construct", "hits": res["grep"][:10]})
    res["lean_s"] = round(time.time() - t0, 2)
    return res


class Driver:
    """The compiled Lean model, driven through its line protocol."""

    def __init__(self):
        # a concurrent `lake build` (another check) relinks .lake/build/bin/audriver, so the binary can vanish
        # mid-run: run a private copy, taken under the lake lock
        os.makedirs(os.path.join(WORKROOT, "drivers"), exist_ok=True)
        self.exe = os.path.join(WORKROOT, "drivers", f"audriver_{os.getpid()}_{id(self)}")
        for attempt in range(3):
            with LakeLock():
                if os.path.exists(DRIVER):
                    shutil.copy2(DRIVER, self.exe)
                    break
            ok, out = lake_build(["audriver"])
            if not ok:
                raise RuntimeError("audriver does not build:\n" + out[-3000:])
        else:
            raise RuntimeError("audriver is not available")

    def __del__(self):
        try:
            os.remove(self.exe)
        except OSError:
            pass

    def ask(self, lines):
        if not lines:
            return []
        rc, out, err = run([self.exe], inp="\n".join(lines) + "\n", timeout=WALL_BACKSTOP, cpu_limit=4 * 3600)
        res = out.split("\n")
        if res and res[-1] == "":
            res.pop()
        if rc != 0 or len(res) != len(lines):
            raise RuntimeError(f"audriver: rc={rc}, {len(res)} answers for {len(lines)} requests\n{err[-2000:]}")
        return res


def kv(line):
    """Parse 'a=1 b=foo' → dict."""
    d = {}
    for tok in line.split():
        if "=" in tok:
            k, v = tok.split("=", 1)
            d[k] = v
    return d


# ----------------------------------------------------------------------------------------------
# C++ side
# ----------------------------------------------------------------------------------------------

CONFIGS = [("g++", "c++14"), ("g++", "c++17"), ("g++", "c++20"),
           ("clang++-14", "c++14"), ("clang++-14", "c++17"), ("clang++-14", "c++20")]

SAN_GCC = ["-fsanitize=address,undefined", "-fsanitize-recover=undefined", "-fno-omit-frame-pointer"]
SAN_CLANG = ["-fsanitize=address,undefined,unsigned-integer-overflow",
             "-fsanitize-recover=undefined,unsigned-integer-overflow", "-fno-omit-frame-pointer"]
# Exact-count build (clang only): every execution of an undefined operation / unsigned wrap calls the harness's
# __ubsan_on_report (harness/ubsan_exact.cc); the full runtimes report each source location once per process.
SAN_EXACT = ["-fsanitize=undefined,unsigned-integer-overflow", "-fsanitize-minimal-runtime", "-fsanitize-recover=all",
             "-fno-sanitize-link-runtime", "-fno-omit-frame-pointer"]
EXACT_HANDLERS = os.path.join(VERIF, "harness", "ubsan_exact.cc")
EXACT = "clang++-14"


def san_flags(compiler, san=True):
    if san == "exact" or compiler == "exact":
        return SAN_EXACT
    return SAN_CLANG if compiler.startswith("clang") else SAN_GCC


def link_cmd(compiler, objs, exe, extra=()):
    """Link command for objects compiled by cxx(..., compiler=compiler, extra=["-c"]); compiler may be "exact"."""
    if compiler == "exact":
        return [EXACT] + SAN_EXACT + list(extra) + list(objs) + [EXACT_HANDLERS, "-o", exe]
    return [compiler] + san_flags(compiler) + list(extra) + list(objs) + ["-o", exe]


UBSAN_ENV = {"UBSAN_OPTIONS": "suppress_equal_pcs=0:print_summary=0", "ASAN_OPTIONS": "detect_leaks=0"}


def cxx(src, out, compiler="g++", std="c++14", opt="-O1", san=True, extra=(), syntax_only=False,
        timeout=None, cpu_limit=3000):
    """`timeout` (wall clock) is honoured if given, but only as a floor of the backstop: the effective limits are `cpu_limit`
    seconds of CPU per compiler process and WALL_BACKSTOP of wall time."""
    cmd = [compiler, f"-std={std}", opt, "-I", AU_INC, "-ffp-contract=off", "-w"]
    if compiler == "exact" and san:
        san = "exact"
    if san == "exact" or compiler == "exact":
        compiler = cmd[0] = EXACT
    if san:
        cmd += san_flags(compiler, san)
    cmd += list(extra)
    if syntax_only:
        cmd += ["-fsyntax-only", src]
    else:
        cmd += [src, "-o", out]
        if san == "exact" and "-c" not in extra:
            cmd += [EXACT_HANDLERS]
    rc, o, e = run(cmd, timeout=max(timeout or 0, WALL_BACKSTOP), cpu_limit=cpu_limit)
    return rc, o + e


def pmap(fn, items, workers=None):
    with ThreadPoolExecutor(max_workers=workers or NCPU) as ex:
        return list(ex.map(fn, items))


# ----------------------------------------------------------------------------------------------
# Findings, violations, evidence
# ----------------------------------------------------------------------------------------------

def load_findings(prop):
    p = os.path.join(VERIF, "known_findings.json")
    if not os.path.exists(p):
        return []
    return [f for f in json.load(open(p))["entries"] if f["property"] == prop and f["kind"] == "finding"]


def _match_one(cond, rec):
    """cond: dict key → expected (value, list of values, or {"expr": python-expression over rec})."""
    for k, want in cond.items():
        if k == "expr":
            try:
                if not eval(want, {"__builtins__": {}}, dict(rec)):
                    return False
            except Exception:
                return False
            continue
        have = rec.get(k)
        if isinstance(want, list):
            if have not in want:
                return False
        elif have != want:
            return False
    return True


def classify(prop, violations):
    """Split violations into (known: [(finding, [violations])], unknown: [violations])."""
    findings = load_findings(prop)
    known = {}
    unknown = []
    for v in violations:
        for f in findings:
            if _match_one(f["match"], v.get("rec", {})):
                known.setdefault(f["key"], (f, []))[1].append(v)
                break
        else:
            unknown.append(v)
    return list(known.values()), unknown


def finish(prop, tier, seed, t0, proof, coverage, violations, assumptions, level="proof"):
    """Write evidence, print KNOWN-FINDING / VIOLATION lines, return exit code.

    violations: list of {"what": str, "rec": {...}, "no_input": bool, "broken": str}"""
    # broken proof obligations are violations too (tie or proof no longer checks)
    for f in proof.get("failed", []):
        violations.append({"what": f"proof obligation no longer checks: {f['theorem']} ({f['why']})",
                           "rec": {"kind": "obligation", "theorem": f["theorem"]},
                           "broken": f["theorem"], "no_input": True, "detail": f})
    known, unknown = classify(prop, violations)
    try:
        json.dump([{k: v for k, v in x.items() if k != "detail"} for x in violations],
                  open(os.path.join(WORKROOT, f"all_violations_{prop}.json"), "w"), indent=1, default=str)
    except Exception:
        pass
    # an obligation failure without a concrete failing input is reported only if no concrete
    # violation explains it
    concrete = [v for v in unknown if not v.get("no_input")]
    abstract = [v for v in unknown if v.get("no_input")]
    os.makedirs(EVID, exist_ok=True)
    rdir = os.path.join(WORKROOT, "replay")
    os.makedirs(rdir, exist_ok=True)
    for old in os.listdir(rdir):
        if old.startswith(prop + "_"):
            os.remove(os.path.join(rdir, old))
    lines = []
    for f, vs in known:
        lines.append(f"KNOWN-FINDING: property={prop} {f['key']}: {f['what']} ({len(vs)} matching case(s) this run)")
    # every listed finding of this property gets its line, also when this run (seed / tier / sampled inputs) did not hit it
    hit = {f["key"] for f, _ in known}
    for f in load_findings(prop):
        if f["key"] not in hit:
            lines.append(f"KNOWN-FINDING: property={prop} {f['key']}: {f['what']} (listed; its inputs were not among those explored by this run)")
    code = 0
    reported = concrete[:]
    if abstract and not concrete:
        reported += abstract
    elif abstract:
        for v in concrete:
            v.setdefault("also_broken", [a.get("broken") for a in abstract])
    # one VIOLATION line per distinct 'what' class (cap 5), each with a replay file
    seen = set()
    n = 0
    for v in reported:
        key = v.get("class") or v["what"]
        if key in seen:
            continue
        seen.add(key)
        n += 1
        if n > 5:
            break
        rp = os.path.join(rdir, f"{prop}_{n}.json")
        json.dump({"property": prop, "tier": tier, "seed": seed, **v}, open(rp, "w"), indent=1, default=str)
        suffix = " no-failing-input-found" if v.get("no_input") else ""
        lines.append(f"VIOLATION property={prop} replay={rp}{suffix}")
        code = 1
    cov = dict(coverage)
    cov.update({
        "obligations": max(1, proof.get("obligations", 0)),
        "discharged": proof.get("discharged", 0),
        "checker_cmd": proof.get("checker_cmd", ""),
        "trusted_base": [
            "Lean 4.33.0 kernel",
            "axioms: subset of {propext, Classical.choice, Quot.sound} (audited with #print axioms on every run)",
            "no sorry/admit/native_decide/bv_decide/implemented_by/unsafe/axiom (grep on every run)",
            "hand-written model AuModel/*.lean tied to /repo by the differential correspondence of this run",
            "tools/*.py generators, differ and oracles; g++ 12.2 / clang++ 14 + libstdc++ 12 as C++ semantics",
        ],
        "theorems": proof.get("theorems", []),
        "axioms": proof.get("axioms", {}),
        "lean_s": proof.get("lean_s"),
        "known_findings_hit": [f["key"] for f, _ in known],
    })
    ev = {
        "property_id": prop, "tier": tier, "seed": seed, "level": level, "coverage": cov,
        "assumptions": assumptions, "wall_s": round(time.time() - t0, 2),
        "violations": len([v for v in reported]),
    }
    json.dump(ev, open(os.path.join(EVID, f"{prop}.json"), "w"), indent=1, default=str)
    for l in lines:
        print(l)
    if code == 0:
        print(f"OK property={prop} tier={tier} seed={seed} obligations={cov['discharged']}/{cov['obligations']} "
              f"evaluations={cov.get('evaluations')} wall={ev['wall_s']}s")
    sys.stdout.flush()
    return code


def rng_for(prop, seed):
    h = hashlib.sha256(f"{prop}:{seed}".encode()).digest()
    return random.Random(int.from_bytes(h[:8], "big"))
